"""E2 — SMT translation validation of expression-level refactorings.

A bounded-exhaustive grammar of small programs `r = <expr>` is pushed, concretely, through the real pipeline
(cst.parse_module -> the codemod's real transformer chain -> tree.code).  The original and the rewritten expression
are then translated from Python `ast` into z3 terms by the symbolic evaluator below, and z3 searches for runtime
values of the program's free names on which the two observable outcomes (raised exception kind, or the value bound
to r) differ.  A model is replayed by exec'ing both programs under the model's values.
"""
import ast

import z3

# ---------------------------------------------------------------- value universe
V = z3.Datatype("V")
V.declare("I", ("i", z3.IntSort()))
V.declare("B", ("b", z3.BoolSort()))
V.declare("N")
V = V.create()

NONE, NAME, TYPE = 0, 1, 2  # outcome kinds: no exception, NameError, TypeError


def truth(v):
    return z3.If(V.is_I(v), V.i(v) != 0, z3.If(V.is_B(v), V.b(v), z3.BoolVal(False)))


def num(v):
    return z3.If(V.is_I(v), V.i(v), z3.If(V.b(v), 1, 0))


def is_num(v):
    return z3.Or(V.is_I(v), V.is_B(v))


def py_eq(a, b):
    return z3.If(z3.And(is_num(a), is_num(b)), num(a) == num(b), z3.And(V.is_N(a), V.is_N(b)))


class Untranslatable(Exception):
    pass


class Ev:
    """Symbolic evaluator of a Python expression fragment with Python's short-circuit and chained-comparison
    semantics.  kinds: name -> 'i' (int), 'b' (bool), 'c' (container, only right of in/not in), 's' (receiver of
    startswith/endswith), 'o' (first argument of isinstance/issubclass), 'e' (element: prefix / type or a 2-tuple of
    them).  bound: the names that are bound at run time (every other name raises NameError)."""

    def __init__(self, kinds, bound):
        self.kinds, self.bound, self.vars, self.axioms = kinds, set(bound), {}, []
        self.uses_is = False

    def var(self, name, sort):
        key = (name, sort)
        if key not in self.vars:
            self.vars[key] = z3.Bool(name) if sort == "b" else z3.Int(name)
        return self.vars[key]

    # outcomes are pairs (kind term, value term of sort V)
    def seq(self, k1, k2, cond=None):
        k2 = k2 if cond is None else z3.If(cond, k2, NONE)
        return z3.If(k1 != NONE, k1, k2)

    def name(self, n):
        if n not in self.bound:
            return z3.IntVal(NAME), V.N
        kind = self.kinds.get(n, "i")
        if kind == "b":
            return z3.IntVal(NONE), V.B(self.var("v_" + n, "b"))
        if kind == "i":
            return z3.IntVal(NONE), V.I(self.var("v_" + n, "i"))
        raise Untranslatable("name %s of kind %s used as a value" % (n, kind))

    def const(self, c):
        if c is None:
            return z3.IntVal(NONE), V.N
        if isinstance(c, bool):
            return z3.IntVal(NONE), V.B(z3.BoolVal(c))
        if isinstance(c, int):
            return z3.IntVal(NONE), V.I(z3.IntVal(c))
        raise Untranslatable("constant %r" % (c,))

    # ---- predicates: recv.startswith(elt) / isinstance(obj, elt)
    def _elt(self, fam, subj, node, nesting_ok):
        """(exception kind, truth, 'is a tuple' flag) of one element expression."""
        if isinstance(node, ast.Name):
            n = node.id
            if n not in self.bound:
                return z3.IntVal(NAME), z3.BoolVal(False), z3.BoolVal(False)
            tup = self.var("tup_" + n, "b")
            scalar = self.var("%s|%s|%s" % (fam, subj, n), "b")
            t1 = self.var("%s|%s|%s.0" % (fam, subj, n), "b")
            t2 = self.var("%s|%s|%s.1" % (fam, subj, n), "b")
            return z3.IntVal(NONE), z3.If(tup, z3.Or(t1, t2), scalar), tup
        if isinstance(node, ast.Constant) and isinstance(node.value, str):
            return z3.IntVal(NONE), self.var("%s|%s|%r" % (fam, subj, node.value), "b"), z3.BoolVal(False)
        raise Untranslatable(ast.dump(node))

    def call(self, e):
        f = e.func
        if isinstance(f, ast.Attribute) and f.attr in ("startswith", "endswith") and isinstance(f.value, ast.Name) and len(e.args) == 1 and not e.keywords:
            fam, subj, nesting_ok = f.attr, f.value.id, False
            k = z3.IntVal(NONE) if subj in self.bound else z3.IntVal(NAME)
            arg = e.args[0]
        elif isinstance(f, ast.Name) and f.id in ("isinstance", "issubclass") and len(e.args) == 2 and isinstance(e.args[0], ast.Name) and not e.keywords:
            fam, subj, nesting_ok = f.id, e.args[0].id, True
            k = z3.IntVal(NONE) if subj in self.bound else z3.IntVal(NAME)
            arg = e.args[1]
        else:
            raise Untranslatable(ast.dump(e))
        if isinstance(arg, ast.Tuple):
            val = z3.BoolVal(False)
            ks = []
            for el in arg.elts:
                ke, ve, tup = self._elt(fam, subj, el, nesting_ok)
                ks.append(ke)
                if not nesting_ok:
                    ks.append(z3.If(tup, TYPE, NONE))  # str.startswith rejects a tuple nested in the tuple
                val = z3.Or(val, ve)
            # argument evaluation (NameError) precedes the call; the TypeError is raised by the call itself
            for ke in ks:
                k = self.seq(k, ke)
            return k, V.B(val)
        ke, ve, _ = self._elt(fam, subj, arg, nesting_ok)
        return self.seq(k, ke), V.B(ve)

    def expr(self, e):
        if isinstance(e, ast.Name):
            return self.name(e.id)
        if isinstance(e, ast.Constant):
            return self.const(e.value)
        if isinstance(e, ast.Call):
            return self.call(e)
        if isinstance(e, ast.UnaryOp) and isinstance(e.op, ast.Not):
            k, v = self.expr(e.operand)
            return k, V.B(z3.Not(truth(v)))
        if isinstance(e, ast.BoolOp):
            k, v = self.expr(e.values[0])
            for nxt in e.values[1:]:
                k2, v2 = self.expr(nxt)
                go = truth(v) if isinstance(e.op, ast.And) else z3.Not(truth(v))
                k = self.seq(k, k2, go)
                v = z3.If(go, v2, v)
            return k, v
        if isinstance(e, ast.Compare):
            return self.compare(e)
        if isinstance(e, ast.BinOp) and isinstance(e.op, ast.Add):
            k1, l = self.expr(e.left)
            k2, r = self.expr(e.right)
            k = self.seq(k1, k2)
            k = self.seq(k, z3.If(z3.Or(V.is_N(l), V.is_N(r)), TYPE, NONE))  # None + x raises TypeError
            return k, V.I(num(l) + num(r))  # bool + int is an int
        if isinstance(e, ast.IfExp):
            kt, t = self.expr(e.test)
            kb, b = self.expr(e.body)
            ko, o = self.expr(e.orelse)
            k = self.seq(kt, z3.If(truth(t), kb, ko))
            return k, z3.If(truth(t), b, o)
        raise Untranslatable(ast.dump(e))

    def compare(self, e):
        k, left = self.expr(e.left)
        left_node = e.left
        res = z3.BoolVal(True)
        for op, cnode in zip(e.ops, e.comparators):
            if isinstance(op, (ast.In, ast.NotIn)):
                # right operand must be a bound container name
                if not isinstance(cnode, ast.Name):
                    raise Untranslatable("in with non-name container")
                if cnode.id not in self.bound:
                    k2, r = z3.IntVal(NAME), z3.BoolVal(False)
                elif self.kinds.get(cnode.id) != "c":
                    k2, r = z3.IntVal(TYPE), z3.BoolVal(False)  # int/bool is not iterable
                else:
                    k2 = z3.IntVal(NONE)
                    r = self.var("in|%s|%s" % (ast.unparse(left_node), cnode.id), "b")
                    if isinstance(op, ast.NotIn):
                        r = z3.Not(r)
                k = self.seq(k, k2, res)
                res = z3.And(res, r)
                left, left_node = V.N, cnode  # a container never appears as a left operand in the grammar
                continue
            k2, right = self.expr(cnode)
            k = self.seq(k, k2, res)
            if isinstance(op, (ast.Eq, ast.NotEq)):
                r = py_eq(left, right)
                if isinstance(op, ast.NotEq):
                    r = z3.Not(r)
            elif isinstance(op, (ast.Is, ast.IsNot)):
                r = self.identity(left_node, left, cnode, right)
                if isinstance(op, ast.IsNot):
                    r = z3.Not(r)
            else:
                # ordering: TypeError when an operand is None
                bad = z3.Or(V.is_N(left), V.is_N(right))
                k = self.seq(k, z3.If(bad, TYPE, NONE), res)
                l, rr = num(left), num(right)
                r = {ast.Lt: l < rr, ast.Gt: l > rr, ast.LtE: l <= rr, ast.GtE: l >= rr}[type(op)]
            res = z3.And(res, r)
            left, left_node = right, cnode
        return k, V.B(res)

    def identity(self, ln, lv, rn, rv):
        """`is`: True / False / None are singletons, and CPython caches the ints in [-5, 256], so within that range
        identity coincides with same-type equality (I(1) is not B(True)).  The driver keeps int-valued names in the
        cached range whenever a program uses `is` (uses_is)."""
        self.uses_is = True
        return lv == rv


def names_of(tree):
    return {n.id for n in ast.walk(tree) if isinstance(n, ast.Name) and n.id not in ("isinstance", "issubclass", "True", "False", "None")}


def outcomes(before_src, after_src, kinds):
    """z3 terms of both programs' outcomes under the binding environment fixed by the ORIGINAL program: every name
    read in `before` is bound, any other name is unbound (C02's static condition turned into an observable)."""
    b = ast.parse(before_src).body[0].value
    a = ast.parse(after_src).body[0].value
    ev = Ev(kinds, names_of(b))
    kb, vb = ev.expr(b)
    ka, va = ev.expr(a)
    return ev, (kb, vb), (ka, va)


def differ(kb, vb, ka, va):
    return z3.Or(kb != ka, z3.And(kb == NONE, vb != va))
