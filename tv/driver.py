"""E2 driver: grammar, real pipeline, z3 comparison, classification, concrete replay, evaluator validation."""
import ast
import warnings

warnings.filterwarnings("ignore", category=SyntaxWarning)
import itertools
import os
import time
from pathlib import Path

import libcst as cst
import z3

import tv
from codemodder.file_context import FileContext
from vlib.core import ROOT, known_active

KINDS = {"a": "i", "b": "i", "n": "i", "p": "b", "q": "b", "c": "c", "s": "s", "t": "s", "o": "o", "x": "e", "y": "e", "z": "e", "T": "e", "U": "e"}


def run_pipeline(codemod, src):
    """The complete real pipeline on one program: parse -> every transformer of the codemod -> code."""
    d = Path("/nonexistent")
    fc = FileContext(d, d / "t.py", [], [], None)
    tree = cst.parse_module(src)
    for t in codemod.transformer.transformers:
        tree = t.transform(tree, None, fc)
    return tree.code, len(fc.codemod_changes)


# ---------------------------------------------------------------- grammar
CMP_OPS = ["==", "!=", "<", ">", "<=", ">=", "is", "is not"]
OPERANDS = ["a", "b", "p", "True", "None", "0"]


def invert_family(tier):
    """`not`-prefixed comparison chains, bare, parenthesised, and inside and/or contexts."""
    progs = []
    for l, op, r in itertools.product(OPERANDS[:3] + ["None"], CMP_OPS, OPERANDS):
        progs.append("not %s %s %s" % (l, op, r))
    for l in ("a", "p", "None"):
        progs += ["not %s in c" % l, "not %s not in c" % l]
    # chains of two operators
    ops2 = CMP_OPS if tier == "thorough" else ["==", "!=", "<", ">=", "is"]
    for o1, o2 in itertools.product(ops2, repeat=2):
        progs.append("not a %s b %s n" % (o1, o2))
        progs.append("not a %s p %s 0" % (o1, o2))
    progs += ["not a == b in c", "not a < b not in c"]
    if tier == "thorough":
        for o1, o2, o3 in itertools.product(["==", "<", "!=", "is not"], repeat=3):
            progs.append("not a %s b %s n %s p" % (o1, o2, o3))
    base = list(progs)
    ctx = base if tier == "thorough" else base[::7]
    for e in ctx:
        progs += ["not (%s)" % e[4:], "%s and q" % e, "q or %s" % e, "not (%s)" % e]
    # contexts in which the parentheses around the `not` expression matter
    for e in (base if tier == "thorough" else base[::5]):
        progs += ["(%s) + 1" % e, "(%s) == p" % e, "n + (%s)" % e, "(%s) if p else 0" % e, "(%s) < a" % e, "p is (%s)" % e]
    # layouts: the comparison under the `not` spread over several lines inside its own parentheses (line breaks before
    # / after the operator, after the opening parenthesis)
    for l, op, r in (("a", "==", "b"), ("a", "<", "b"), ("a", "is not", "None"), ("p", "!=", "True"), ("a", "in", "c")):
        progs += ["not (\n    %s\n    %s %s\n)" % (l, op, r), "not (%s %s\n        %s)" % (l, op, r), "not (\n    %s %s %s\n)" % (l, op, r), "not (%s\n    %s %s) and q" % (l, op, r)]
    return sorted(set(progs))


def _trees(atoms, depth):
    if depth == 0:
        yield from atoms
        return
    yield from _trees(atoms, depth - 1)
    for op in ("and", "or"):
        for l in _trees(atoms, depth - 1):
            for r in _trees(atoms, depth - 1):
                yield "%s %s %s" % (l, op, r)


def combine_family(atoms, tier):
    progs = set(_trees(atoms, 1))
    triples = atoms if tier == "thorough" else atoms[:5]
    for a, b, c in itertools.product(triples, repeat=3):
        for o1, o2 in itertools.product(("and", "or"), repeat=2):
            progs.add("%s %s %s %s %s" % (a, o1, b, o2, c))
            progs.add("%s %s (%s %s %s)" % (a, o1, b, o2, c))
            if tier == "thorough":
                progs.add("(%s %s %s) %s %s" % (a, o1, b, o2, c))
                progs.add("not (%s %s %s) %s %s" % (a, o1, b, o2, c))
    return sorted(progs)


SW_ATOMS = ["s.startswith(x)", "s.startswith(y)", "s.endswith(z)", "t.startswith(x)", "s.startswith((x, y))", "p", "s.startswith('lit')", "not s.startswith(x)"]
IS_ATOMS = ["isinstance(o, T)", "isinstance(o, U)", "issubclass(o, T)", "isinstance(s, T)", "isinstance(o, (T, U))", "p", "not isinstance(o, T)"]


def families(tier):
    from core_codemods.combine_isinstance_issubclass import CombineIsinstanceIssubclass
    from core_codemods.combine_startswith_endswith import CombineStartswithEndswith
    from core_codemods.invert_boolean_check import InvertedBooleanCheck

    return [
        ("invert-boolean-check", InvertedBooleanCheck, invert_family(tier)),
        ("combine-startswith-endswith", CombineStartswithEndswith(), combine_family(SW_ATOMS, tier)),
        ("combine-isinstance-issubclass", CombineIsinstanceIssubclass(), combine_family(IS_ATOMS, tier)),
    ]


# ---------------------------------------------------------------- classification of non-equivalences (known findings)
def _is_combinable(node):
    if isinstance(node, ast.Call):
        f = node.func
        return (isinstance(f, ast.Attribute) and f.attr in ("startswith", "endswith")) or (isinstance(f, ast.Name) and f.id in ("isinstance", "issubclass"))
    return False


def classify(codemod_name, before_src, needs_tuple, model_kinds):
    """Stable classifier key of a non-equivalence, or None when it matches no recorded finding."""
    b = ast.parse(before_src).body[0].value
    if codemod_name.startswith("combine-"):
        for node in ast.walk(b):
            if isinstance(node, ast.BoolOp) and isinstance(node.op, ast.Or):
                vals = node.values
                for i, v in enumerate(vals):
                    if isinstance(v, ast.BoolOp) and isinstance(v.op, ast.And):
                        # fold-right: C or (C and Z ...)   /   fold-left: (... Z and C) or C
                        if i > 0 and _is_combinable(vals[i - 1]) and _is_combinable(v.values[0]):
                            return "C08/combine-calls/or-folded-over-inner-and"
                        if i + 1 < len(vals) and _is_combinable(vals[i + 1]) and _is_combinable(v.values[-1]):
                            return "C08/combine-calls/or-folded-over-inner-and"
        if needs_tuple:
            return "C08/combine-calls/name-argument-denoting-a-tuple"
        return None
    if codemod_name == "invert-boolean-check":
        # `not X is True` -> `not X` / `not X is False` -> `X` for a non-bool X.  The rule also fires on an
        # intermediate form: `not (not X is not True)` first becomes `not (X is True)`, then `not X`.
        for node in ast.walk(b):
            if isinstance(node, ast.UnaryOp) and isinstance(node.op, ast.Not):
                for c in ast.walk(node.operand):
                    if isinstance(c, ast.Compare) and len(c.ops) == 1 and isinstance(c.ops[0], (ast.Is, ast.IsNot)) and isinstance(c.comparators[0], ast.Constant) and isinstance(c.comparators[0].value, bool):
                        if not (isinstance(c.left, ast.Name) and KINDS.get(c.left.id) == "b"):
                            return "C08/invert-boolean-check/is-True-on-non-bool"
        return None
    return None


# ---------------------------------------------------------------- concrete replay
class _El:
    def __init__(self, name):
        self.name = name

    def __repr__(self):
        return "<%s>" % self.name


class _Recv:
    def __init__(self, name, table):
        self.name, self.table = name, table

    def _q(self, fam, arg):
        if isinstance(arg, tuple):
            for el in arg:
                if isinstance(el, tuple):
                    raise TypeError("tuple for startswith must only contain str, not tuple")
            return any(self.table.get((fam, self.name, el.name), False) for el in arg)
        if isinstance(arg, str):
            return self.table.get((fam, self.name, repr(arg)), False)
        return self.table.get((fam, self.name, arg.name), False)

    def startswith(self, arg):
        return self._q("startswith", arg)

    def endswith(self, arg):
        return self._q("endswith", arg)


class _Container:
    def __init__(self, members):
        self.members = members

    def __contains__(self, item):
        return any(item == m for m in self.members)


def build_env(model, ev, before_names):
    env, table = {}, {}
    mv = {}
    for (name, sort), var in ev.vars.items():
        val = model.eval(var, model_completion=True)
        mv[name] = z3.is_true(val) if sort == "b" else val.as_long()
    for key, val in mv.items():
        parts = key.split("|")
        if len(parts) == 3 and parts[0] in ("startswith", "endswith", "isinstance", "issubclass"):
            table[(parts[0], parts[1], parts[2])] = val
    for n in before_names:
        kind = KINDS.get(n, "i")
        if kind == "i":
            env[n] = mv.get("v_" + n, 0)
        elif kind == "b":
            env[n] = mv.get("v_" + n, False)
        elif kind in ("s", "o"):
            env[n] = _Recv(n, table)
        elif kind == "e":
            env[n] = (_El(n + ".0"), _El(n + ".1")) if mv.get("tup_" + n, False) else _El(n)
        elif kind == "c":
            members = []
            for key, val in mv.items():
                parts = key.split("|")
                if len(parts) == 3 and parts[0] == "in" and parts[2] == n and val:
                    try:
                        members.append(eval(parts[1], {}, dict(env)))
                    except Exception:
                        pass
            env[n] = _Container(members)
    # container membership may reference names defined later: second pass
    for n in before_names:
        if KINDS.get(n) == "c":
            members = []
            for key, val in mv.items():
                parts = key.split("|")
                if len(parts) == 3 and parts[0] == "in" and parts[2] == n and val:
                    members.append(eval(parts[1], {}, dict(env)))
            env[n] = _Container(members)

    def _inst(fam):
        def f(obj, t):
            def one(el):
                if isinstance(el, tuple):
                    return any(one(e) for e in el)
                return table.get((fam, obj.name, el.name), False)

            return one(t)

        return f

    env["isinstance"] = _inst("isinstance")
    env["issubclass"] = _inst("issubclass")
    return env


def observe(src, env):
    ns = dict(env)
    try:
        exec(compile(src, "<prog>", "exec"), ns)
    except NameError:
        return ("exc", "NameError")
    except TypeError:
        return ("exc", "TypeError")
    except Exception as e:  # noqa
        return ("exc", type(e).__name__)
    r = ns["r"]
    return ("val", type(r).__name__, r if isinstance(r, (bool, int, type(None))) else repr(r))


def write_replay(prop, name, before_src, after_src, env_repr):
    d = os.path.join(ROOT, "replays", prop)
    os.makedirs(d, exist_ok=True)
    path = os.path.join(d, name + ".py")
    with open(path, "w") as f:
        f.write("import sys\nsys.path.insert(0, %r)\nfrom tv.driver import replay_pair\nsys.exit(replay_pair(%r, %r, %r))\n" % (ROOT, before_src, after_src, env_repr))
    return path


def replay_pair(before_src, after_src, env_repr):
    """Re-run the real pipeline on `before_src`, then exec both programs under the recorded values."""
    env = _env_from_repr(env_repr)
    ob, oa = observe(before_src, env), observe(after_src, env)
    print("before:", before_src.strip(), "->", ob)
    print("after: ", after_src.strip(), "->", oa)
    return 1 if ob != oa else 0


def _env_repr(model, ev):
    out = {}
    for (name, sort), var in ev.vars.items():
        val = model.eval(var, model_completion=True)
        out[name] = (z3.is_true(val) if sort == "b" else val.as_long())
    return out


def _env_from_repr(mv):
    class _M:
        def eval(self, var, model_completion=True):
            n = str(var)
            v = mv.get(n, False if z3.is_bool(var) else 0)
            return z3.BoolVal(v) if isinstance(v, bool) else z3.IntVal(v)

    class _E:
        pass

    ev = _E()
    ev.vars = {}
    for n, v in mv.items():
        ev.vars[(n, "b" if isinstance(v, bool) else "i")] = z3.Bool(n) if isinstance(v, bool) else z3.Int(n)
    return build_env(_M(), ev, list(KINDS))


# ---------------------------------------------------------------- the check
def check_pair(before_src, after_src, want_kind=None):
    """z3 query.  Returns ('unsat' | 'sat' | 'unknown' | 'untranslatable', model-env or None, needs_tuple)."""
    try:
        ev, (kb, vb), (ka, va) = tv.outcomes(before_src, after_src, KINDS)
    except (tv.Untranslatable, SyntaxError) as e:
        return "untranslatable", str(e), False, None
    base = list(ev.axioms)
    # CPython: identity of small ints coincides with equality; keep ints in the cached range when `is` is used
    if ev.uses_is:
        for (n, s_), var in ev.vars.items():
            if s_ == "i":
                base.append(z3.And(var >= -5, var <= 256))
    goal = tv.differ(kb, vb, ka, va) if want_kind is None else z3.And(ka == want_kind, kb != want_kind)
    tups = [var for (n, s_), var in ev.vars.items() if n.startswith("tup_")]
    for scalar_world in (True, False):
        s = z3.Solver()
        s.set("timeout", 20000)
        s.add(*base)
        s.add(goal)
        if scalar_world:
            s.add(*[z3.Not(t) for t in tups])
        elif not tups:
            break
        r = str(s.check())
        if r == "sat":
            return "sat", _env_repr(s.model(), ev), (not scalar_world), ev
        if r != "unsat":
            return "unknown", None, False, ev
    return "unsat", None, False, ev


def validate_evaluator(src, envs):
    """Serval-style validation of the evaluator: exec the program under concrete environments and compare with the
    z3 evaluation of its term under the same assignment."""
    try:
        ev, (kb, vb), _ = tv.outcomes(src, src, KINDS)
    except (tv.Untranslatable, SyntaxError):
        return 0, []
    bad = []
    n = 0
    for seed in envs:
        assign = {}
        for i, ((name, sort), var) in enumerate(sorted(ev.vars.items(), key=lambda kv: kv[0][0])):
            if sort == "b":
                assign[name] = bool((seed >> (i % 7)) & 1)
            else:
                assign[name] = [0, 1, -1, 2, 5][(seed + i) % 5]
        # make `is` relations between int names consistent with CPython small-int identity
        env = _env_from_repr(assign)
        subs = [(var, z3.BoolVal(assign[name]) if sort == "b" else z3.IntVal(assign[name])) for (name, sort), var in ev.vars.items()]
        if any(name.startswith("is|") or name.startswith("in|") for name in assign):
            continue  # relations need a consistent model; covered by replay of solver models instead
        k = z3.simplify(z3.substitute(kb, *subs))
        v = z3.simplify(z3.substitute(vb, *subs))
        obs = observe(src, env)
        n += 1
        kind = k.as_long()
        if kind != tv.NONE:
            model_obs = ("exc", {tv.NAME: "NameError", tv.TYPE: "TypeError"}[kind])
        elif z3.is_true(z3.simplify(tv.V.is_I(v))):
            model_obs = ("val", "int", z3.simplify(tv.V.i(v)).as_long())
        elif z3.is_true(z3.simplify(tv.V.is_B(v))):
            model_obs = ("val", "bool", z3.is_true(z3.simplify(tv.V.b(v))))
        else:
            model_obs = ("val", "NoneType", None)
        if obs != model_obs:
            bad.append((src, assign, obs, model_obs))
    return n, bad


def run(prop, tier, want_kind=None):
    """Returns the driver records for property `prop` ('C08' full outcome comparison, 'C02' NameError only)."""
    recs = []
    t0 = time.time()
    tot_programs = tot_changed = tot_queries = 0
    zt = 0.0
    violations, knowns, unknowns, untrans, parse_fail = [], {}, [], [], []
    val_n, val_bad = 0, []
    samples = []
    for cname, codemod, progs in families(tier):
        for idx, e in enumerate(progs):
            src = "r = %s\n" % e
            tot_programs += 1
            try:
                out, nch = run_pipeline(codemod, src)
            except Exception as ex:  # noqa: the pipeline itself failing on a valid program
                violations.append((cname, src, "<pipeline raised %s>" % type(ex).__name__, None, "pipeline-exception"))
                continue
            if idx % 11 == 0:
                n, bad = validate_evaluator(src, [0, 1, 2, 5, 9])
                val_n += n
                val_bad += bad
            if out == src:
                continue
            tot_changed += 1
            try:
                ast.parse(out)
            except SyntaxError:
                parse_fail.append((cname, src.strip(), out.strip()))
                if prop in ("C08", "C01"):
                    violations.append((cname, src, out, None, "does-not-parse"))
                continue
            tq = time.time()
            res, model, needs_tuple, ev = check_pair(src, out, want_kind)
            zt += time.time() - tq
            tot_queries += 1
            if len(samples) < 6 and res == "unsat":
                samples.append({"codemod": cname, "before": src.strip(), "after": out.strip(), "z3": "unsat"})
            if res == "unsat":
                continue
            if res == "untranslatable":
                untrans.append((cname, src.strip(), out.strip(), model))
                continue
            if res == "unknown":
                unknowns.append((cname, src.strip()))
                continue
            # sat: replay concretely
            env = _env_from_repr(model)
            ob, oa = observe(src, env), observe(out, env)
            if ob == oa:
                unknowns.append((cname, src.strip() + "  [model did not reproduce: %r]" % (model,)))
                continue
            key = classify(cname, src, needs_tuple, KINDS)
            if key is not None and known_active(key):
                knowns.setdefault(key, []).append((src.strip(), out.strip(), ob, oa))
            else:
                violations.append((cname, src, out, model, "%r vs %r" % (ob, oa)))
    rec = {
        "name": "%s:translation-validation" % prop,
        "engine": "E2-z3-translation-validation",
        "evaluations": tot_programs,
        "distinct_nontrivial": tot_changed,
        "programs": tot_programs,
        "disagreements_checked": tot_queries,
        "z3_checks": tot_queries,
        "z3_time_s": round(zt, 3),
        "sample": {"programs": tot_programs, "changed_by_codemod": tot_changed, "queries": tot_queries, "known_findings": {k: len(v) for k, v in knowns.items()},
                   "untranslatable": len(untrans), "unknown": len(unknowns), "rewritten_programs_that_do_not_parse": len(parse_fail), "pairs": samples, "wall_s": round(time.time() - t0, 1)},
    }
    if violations:
        cname, src, out, model, why = violations[0]
        rec["verdict"] = "violation"
        rec["detail"] = "%d non-equivalent rewrites; first: [%s] %s  ==>  %s  (%s) values %r" % (len(violations), cname, src.strip(), out.strip(), why, model)
        rec["replay"] = write_replay(prop, "tv_first", src, out, model or {})
        rec["sample"]["violations"] = [{"codemod": c, "before": s.strip(), "after": o.strip(), "why": w} for c, s, o, _m, w in violations[:12]]
    elif unknowns or untrans:
        rec["verdict"] = "inconclusive"
        rec["detail"] = "unknown %r / untranslatable %r" % (unknowns[:2], untrans[:2])
    else:
        rec["verdict"] = "discharged"
    recs.append(rec)
    recs.append({"name": "validate:evaluator-vs-exec", "engine": "model-validation", "verdict": "discharged" if not val_bad else "harness_error", "evaluations": val_n, "distinct_nontrivial": 0,
                 "detail": repr(val_bad[:2]) if val_bad else "", "sample": {"concrete_evaluations_compared": val_n}})
    for key, lst in knowns.items():
        recs.append({"name": "known:" + key, "engine": "E2-z3-translation-validation", "verdict": "known", "evaluations": len(lst), "distinct_nontrivial": len(lst),
                     "detail": "%s :: %d program pairs, e.g. %s ==> %s (%r vs %r)" % (key, len(lst), lst[0][0], lst[0][1], lst[0][2], lst[0][3])})
    return recs


def parse_only(tier):
    """C01 by-product: every program of the E2 families still parses after the real pipeline (concrete check)."""
    n = changed = 0
    bad = []
    for cname, codemod, progs in families(tier):
        for e in progs:
            src = "r = %s\n" % e
            n += 1
            out, _ = run_pipeline(codemod, src)
            if out != src:
                changed += 1
                try:
                    ast.parse(out)
                except SyntaxError:
                    bad.append((cname, src.strip(), out.strip()))
    rec = {"name": "C01:rewritten-E2-programs-parse", "engine": "concrete-pipeline", "evaluations": n, "distinct_nontrivial": changed, "programs": n, "disagreements_checked": changed,
           "sample": {"programs": n, "rewritten": changed, "unparsable": len(bad), "examples": bad[:3]}}
    if bad:
        rec["verdict"] = "violation"
        rec["detail"] = "[%s] %s  ==>  %s does not parse" % bad[0]
        rec["replay"] = write_replay("C01", "unparsable", bad[0][1] + "\n", bad[0][2] + "\n", {})
    else:
        rec["verdict"] = "discharged"
    return [rec]
