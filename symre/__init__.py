"""symre: translate CPython `re` patterns (via sre_parse) into z3 regular expressions.

Supported: literals, `.`, character classes and ranges (incl. negation), greedy / lazy repeats, groups (incl. scoped
flags `(?s:...)`), atomic groups `(?>...)` (language of the plain group; exact for the match/no-match question
when followed only by the patterns fnmatch.translate emits -- validated concretely, see validate()), branches,
`\\Z` / `$`-less end anchors as emitted by fnmatch.translate.  Anything else raises NotImplementedError, which a
check must report as inconclusive.
"""
import re

import z3

try:  # Python >= 3.11
    import re._constants as C
    import re._parser as sre_parse
except ImportError:  # pragma: no cover
    import sre_constants as C
    import sre_parse

ANY = z3.AllChar(z3.ReSort(z3.StringSort()))
ALL = z3.Star(ANY)
NONL = z3.Diff(ANY, z3.Re("\n"))
EMPTY = z3.Re("")


def _cat(parts):
    if not parts:
        return EMPTY
    return parts[0] if len(parts) == 1 else z3.Concat(*parts)


def _cls(av):
    alts, neg = [], False
    for o2, a2 in av:
        o2 = str(o2)
        if o2 == "NEGATE":
            neg = True
        elif o2 == "LITERAL":
            alts.append(z3.Re(chr(a2)))
        elif o2 == "RANGE":
            alts.append(z3.Range(chr(a2[0]), chr(a2[1])))
        else:
            raise NotImplementedError("class item " + o2)
    u = alts[0] if len(alts) == 1 else z3.Union(*alts)
    return z3.Diff(ANY, u) if neg else u


def tr(seq, dotall=False):
    parts = []
    for op, av in seq:
        op = str(op)
        if op == "LITERAL":
            parts.append(z3.Re(chr(av)))
        elif op == "NOT_LITERAL":
            parts.append(z3.Diff(ANY, z3.Re(chr(av))))
        elif op == "ANY":
            parts.append(ANY if dotall else NONL)
        elif op in ("MAX_REPEAT", "MIN_REPEAT", "POSSESSIVE_REPEAT"):
            lo, hi, sub = av
            r = tr(sub, dotall)
            if lo == 0 and hi == C.MAXREPEAT:
                parts.append(z3.Star(r))
            elif lo == 1 and hi == C.MAXREPEAT:
                parts.append(z3.Plus(r))
            elif lo == 0 and hi == 1:
                parts.append(z3.Option(r))
            elif hi == C.MAXREPEAT:
                parts.append(z3.Concat(z3.Loop(r, lo, lo), z3.Star(r)))
            else:
                parts.append(z3.Loop(r, lo, hi))
        elif op == "SUBPATTERN":
            _g, add, _dele, sub = av
            parts.append(tr(sub, dotall or bool(add & re.DOTALL)))
        elif op == "ATOMIC_GROUP":
            parts.append(tr(av, dotall))
        elif op == "BRANCH":
            _, alts = av
            parts.append(z3.Union(*[tr(a, dotall) for a in alts]) if len(alts) > 1 else tr(alts[0], dotall))
        elif op == "AT":
            if str(av) not in ("AT_END_STRING", "AT_BEGINNING_STRING"):
                raise NotImplementedError("anchor " + str(av))
        elif op == "IN":
            parts.append(_cls(av))
        else:
            raise NotImplementedError(op)
    return _cat(parts)


def from_pattern(pattern: str, flags: int = 0):
    """z3 regex for the language of `pattern` under fullmatch semantics."""
    return tr(sre_parse.parse(pattern, flags), dotall=bool(flags & re.DOTALL))


def method_lang(pattern: str, method: str, flags: int = 0):
    """Language of strings s for which `re.compile(pattern).<method>(s)` succeeds."""
    r = from_pattern(pattern, flags)
    if method == "fullmatch":
        return r
    if method == "match":
        return z3.Concat(r, ALL)
    if method == "search":
        return z3.Concat(ALL, r, ALL)
    raise NotImplementedError(method)


def glob_star_only(pat: str):
    """Reference: whole-string glob in which `*` (any run of characters) is the only special character."""
    parts = []
    for i, seg in enumerate(pat.split("*")):
        if i:
            parts.append(ALL)
        if seg:
            parts.append(z3.Re(seg))
    return _cat(parts)


def validate(pattern: str, method: str, samples, flags: int = 0):
    """Concrete validation of the translation: evaluate the z3 regex on constant strings and compare with `re`.
    Returns the list of disagreeing samples (empty = validated)."""
    lang = method_lang(pattern, method, flags)
    rx = re.compile(pattern, flags)
    bad = []
    for s in samples:
        real = getattr(rx, method)(s) is not None
        model = z3.is_true(z3.simplify(z3.InRe(z3.StringVal(s), lang)))
        if real != model:
            bad.append(s)
    return bad
