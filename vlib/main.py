"""bin/check entry point: run one property's obligations and write its evidence file.

exit 0: every explored obligation held (known findings are printed as KNOWN-FINDING lines)
exit 1: a reproduced counterexample that known_findings.json does not list as 'known'
exit 3: harness error (a solver model that does not reproduce concretely, worker crash)
"""
import argparse
import concurrent.futures as cf
import importlib
import inspect
import json
import os
import re
import subprocess
import sys
import time
import traceback

ROOT = os.path.dirname(os.path.dirname(os.path.abspath(__file__)))
PY = sys.executable
REPO = os.environ.get("VERIF_REPO", "/repo")


class Xh:
    """A CrossHair obligation: harness function `fn` (PEP316 contract) must be
    'Confirmed over all paths' and its reachability twin must be refuted."""

    def __init__(self, fn, quick=60, thorough=240, desc="", twin=True, expect="confirmed", tiers=("quick", "thorough")):
        self.fn, self.quick, self.thorough, self.desc, self.twin = fn, quick, thorough, desc, twin
        self.expect = expect  # 'confirmed' | 'refuted' (planted-defect self test)
        self.tiers = tiers


def _run_worker(mod, fn, timeout, twin, tier):
    env = dict(os.environ)
    env["VERIF_TIER"] = tier
    env["PYTHONHASHSEED"] = "0"
    env["PYTHONPATH"] = ROOT + os.pathsep + env.get("PYTHONPATH", "")
    env.pop("VERIF_TWIN", None)
    cmd = [PY, "-m", "vlib.xh_worker", mod, fn, str(timeout)] + (["twin"] if twin else [])
    t0 = time.time()
    try:
        p = subprocess.run(cmd, cwd=ROOT, env=env, capture_output=True, text=True, timeout=timeout * 2 + 120)
    except subprocess.TimeoutExpired:
        return {"timeout_wall": True, "wall_s": time.time() - t0, "conditions": [{"messages": [{"state": "CANNOT_CONFIRM", "message": "worker exceeded its wall-clock limit (a single path outlived the per-condition budget)"}], "paths": 0}]}
    for line in p.stdout.splitlines():
        if line.startswith("@@XH@@"):
            d = json.loads(line[6:])
            d["proc_wall_s"] = round(time.time() - t0, 2)
            return d
    return {"error": "worker produced no result", "stderr": p.stderr[-3000:], "stdout": p.stdout[-1000:], "conditions": [], "wall_s": time.time() - t0}


def _state(res):
    """Collapse a worker result into one of: confirmed | refuted | unknown | error."""
    if res.get("error"):
        return "error", None
    states = []
    cex = None
    for c in res["conditions"]:
        for m in c["messages"]:
            states.append(m["state"])
            if m["state"] in ("POST_FAIL", "EXEC_ERR", "POST_ERR", "PRE_INVALID") and cex is None:
                cex = m
    if not states:
        return "error", None
    if cex is not None:
        return "refuted", cex
    if all(s == "CONFIRMED" for s in states):
        return "confirmed", None
    return "unknown", None


def _replay(mod, fn, call_text):
    env = dict(os.environ)
    env["PYTHONPATH"] = ROOT + os.pathsep + env.get("PYTHONPATH", "")
    env.pop("VERIF_TWIN", None)
    p = subprocess.run([PY, "-m", "vlib.replay", mod, fn, call_text], cwd=ROOT, env=env, capture_output=True, text=True, timeout=600)
    return p.returncode == 1, (p.stdout + p.stderr)[-2000:]


def _write_replay(prop, name, mod, fn, call_text):
    d = os.path.join(ROOT, "replays", prop)
    os.makedirs(d, exist_ok=True)
    path = os.path.join(d, name + ".py")
    with open(path, "w") as f:
        f.write(
            "#!/usr/bin/env python\n"
            "# replay of a solver counterexample against the real code (run: bin/check %s --replay %s)\n"
            "import sys\nsys.path.insert(0, %r)\n"
            "from vlib.replay import replay_call\n"
            "sys.exit(replay_call(%r, %r, %r))\n" % (prop, path, ROOT, mod, fn, call_text)
        )
    return path


def _run_demos(prop):
    """Concrete public-API demonstrations of recorded findings (known_findings.json).
    status 'known'  + demo reproduces  -> KNOWN-FINDING line (exit status unaffected)
    status 'fixed:<commit>' + demo reproduces -> the defect is back: VIOLATION
    A demo exits 1 when the defect is present, 0 when absent."""
    from vlib.core import known_entries

    recs = []
    env = dict(os.environ)
    env["PYTHONPATH"] = ROOT + os.pathsep + env.get("PYTHONPATH", "")
    for e in known_entries(prop):
        demo = e.get("demo")
        if not demo:
            continue
        demo_file, *demo_args = demo.split()
        path = os.path.join(ROOT, demo_file)
        t0 = time.time()
        p = subprocess.run([PY, path] + demo_args, cwd=ROOT, env=env, capture_output=True, text=True, timeout=900)
        out = (p.stdout + p.stderr).strip()[-600:]
        rec = {"name": "demo:" + e["key"], "engine": "replay-concrete", "evaluations": 1, "wall_s": round(time.time() - t0, 2), "sample": {"demo": demo, "output": out[-300:]}}
        present = p.returncode == 1
        if p.returncode not in (0, 1):
            rec["verdict"] = "harness_error"
            rec["detail"] = "demo crashed: " + out
        elif e.get("status") == "known":
            if present:
                rec["verdict"] = "known"
                rec["detail"] = "%s :: %s" % (e["key"], e.get("what", ""))
            else:
                rec["verdict"] = "discharged"
                rec["detail"] = "recorded finding %s no longer reproduces" % e["key"]
        else:  # fixed
            if present:
                rec["verdict"] = "violation"
                rec["replay"] = path
                rec["detail"] = "fixed finding is back: " + out[-300:]
            else:
                rec["verdict"] = "discharged"
        recs.append(rec)
    return recs


def blob_hashes(files):
    out = {}
    for f in files:
        p = os.path.join(REPO, f)
        try:
            h = subprocess.run(["git", "-C", REPO, "hash-object", p], capture_output=True, text=True).stdout.strip()
        except Exception:
            h = "?"
        out[f] = h
    return out


def run_property(prop, tier):
    t_start = time.time()
    prop = prop.upper()
    os.environ["VERIF_TIER"] = tier
    mod_name = "harness." + prop.lower()
    mod = importlib.import_module(mod_name)
    spec = mod.SPEC
    records = []  # per obligation
    violations = []  # (name, replay path)
    known_lines = []
    harness_errors = []

    # ---- E1: CrossHair obligations, real + twin, all in parallel
    xhs = [x for x in spec.get("xh", []) if tier in x.tiers]
    jobs = {}
    workers = int(os.environ.get("VERIF_JOBS", "16"))
    with cf.ThreadPoolExecutor(max_workers=workers) as ex:
        for x in xhs:
            t = x.thorough if tier == "thorough" else x.quick
            jobs[(x.fn, False)] = ex.submit(_run_worker, mod_name, x.fn, t, False, tier)
            if x.twin:
                jobs[(x.fn, True)] = ex.submit(_run_worker, mod_name, x.fn, min(t, 120), True, tier)
        # ---- drivers (E2 / E3 / concrete known-finding replays) run in this process meanwhile
        drv_records = []
        for drv in spec.get("drivers", []):
            try:
                drv_records.extend(drv(tier))
            except Exception as e:  # a crashing driver is a harness error, never a pass
                traceback.print_exc()
                drv_records.append({"name": getattr(drv, "__name__", "driver"), "engine": "driver", "verdict": "harness_error", "detail": f"{type(e).__name__}: {e}"})
        drv_records.extend(_run_demos(prop))
        results = {k: f.result() for k, f in jobs.items()}

    for x in xhs:
        real = results[(x.fn, False)]
        st, cex = _state(real)
        rec = {
            "name": x.fn,
            "engine": "E1-crosshair",
            "desc": x.desc or " ".join(l.strip() for l in (inspect.getdoc(getattr(mod, x.fn)) or "").strip().splitlines() if not l.strip().startswith(("pre:", "post:", "raises:"))),
            "timeout_s": real.get("timeout"),
            "paths": sum(c.get("paths", 0) for c in real.get("conditions", [])),
            "z3_checks": real.get("z3_checks", 0),
            "z3_time_s": real.get("z3_time_s", 0.0),
            "z3_unknown": real.get("z3_unknown", 0),
            "cpu_s": sum(c.get("cpu_s", 0) for c in real.get("conditions", [])),
            "contract": [{"pre": c.get("pre"), "post": c.get("post")} for c in real.get("conditions", [])],
            "state": st,
        }
        twin_ok = True
        if x.twin:
            tw = results[(x.fn, True)]
            tst, tcex = _state(tw)
            rec["twin_state"] = tst
            rec["twin_paths"] = sum(c.get("paths", 0) for c in tw.get("conditions", []))
            rec["paths"] += rec["twin_paths"]
            rec["z3_checks"] += tw.get("z3_checks", 0)
            rec["z3_time_s"] = round(rec["z3_time_s"] + tw.get("z3_time_s", 0.0), 3)
            if tst == "refuted":
                rec["witness"] = tcex.get("call")
            else:
                twin_ok = False
        if st == "error":
            rec["verdict"] = "harness_error"
            rec["detail"] = (real.get("error") or "") + " " + real.get("stderr", "")[-1500:]
        elif x.expect == "refuted":
            # planted-defect self test: the engine must find the planted bug
            rec["verdict"] = "discharged" if st == "refuted" else "inconclusive"
            rec["detail"] = "planted defect " + ("found: " + str(cex.get("call")) if st == "refuted" else "NOT found")
        elif st == "refuted":
            call = cex.get("call")
            rec["counterexample"] = call
            rec["message"] = cex.get("message")
            if call is None:
                rec["verdict"] = "harness_error"
                rec["detail"] = "counterexample without call text: " + cex.get("message", "") + cex.get("traceback", "")
            else:
                ok, out = _replay(mod_name, x.fn, call)
                rec["replay_output"] = out[-800:]
                if ok:
                    path = _write_replay(prop, x.fn, mod_name, x.fn, call)
                    rec["verdict"] = "violation"
                    rec["replay"] = path
                    violations.append((x.fn, path))
                else:
                    rec["verdict"] = "harness_error"
                    rec["detail"] = "solver model does not reproduce concretely: " + call
        elif st == "confirmed":
            if twin_ok:
                rec["verdict"] = "discharged"
            else:
                rec["verdict"] = "inconclusive"
                rec["detail"] = "confirmed but reachability twin was not refuted (possibly vacuous)"
        else:
            rec["verdict"] = "inconclusive"
            msgs = [m["message"] for c in real.get("conditions", []) for m in c["messages"]]
            rec["detail"] = "; ".join(msgs)[:300]
        records.append(rec)

    for r in drv_records:
        records.append(r)
        if r.get("verdict") == "violation":
            rp = r.get("replay") or ""
            if not rp:
                # drivers that re-run the real code themselves (E3 cells, demos) describe the failing input in words
                d = os.path.join(ROOT, "replays", prop)
                os.makedirs(d, exist_ok=True)
                rp = os.path.join(d, re.sub(r"[^A-Za-z0-9_.-]+", "_", r["name"]) + ".txt")
                with open(rp, "w") as f:
                    f.write("property %s, obligation %s\nfailing input (reproduced concretely against the real code by the driver):\n%s\nre-run: bin/check %s\n" % (prop, r["name"], r.get("detail", ""), prop))
                r["replay"] = rp
            violations.append((r["name"], rp))
        if r.get("verdict") == "known":
            known_lines.append(r)

    for r in records:
        if r.get("verdict") == "harness_error":
            harness_errors.append(r)

    # ---- evidence
    n_obl = len(records)
    n_dis = sum(1 for r in records if r.get("verdict") in ("discharged", "known"))
    paths = sum(r.get("paths", 0) for r in records)
    confirmed_paths = sum(r.get("paths", 0) - r.get("twin_paths", 0) for r in records if r.get("verdict") == "discharged" and r["engine"].startswith("E1"))
    nontrivial = confirmed_paths + sum(r.get("distinct_nontrivial", 0) for r in records if not r["engine"].startswith("E1"))
    evaluations = paths + sum(r.get("evaluations", 0) for r in records if not r["engine"].startswith("E1"))
    samples = []
    for r in records:
        s = {"obligation": r["name"], "engine": r["engine"], "verdict": r.get("verdict")}
        for k in ("contract", "witness", "counterexample", "sample", "detail", "desc"):
            if r.get(k):
                s[k] = r[k]
        samples.append(s)
    level = spec.get("level", "model_checking")
    coverage = {
        "obligations": n_obl,
        "discharged": n_dis,
        "inconclusive": [r["name"] for r in records if r.get("verdict") == "inconclusive"],
        "evaluations": int(evaluations),
        "distinct_nontrivial": int(nontrivial),
        "rule": spec.get(
            "rule",
            "evaluations = execution paths explored by CrossHair (real obligations + reachability twins) plus cases enumerated by E2/E3 drivers; "
            "distinct_nontrivial = paths of obligations that came back 'Confirmed over all paths' (each is a distinct branch of the path tree that met the "
            "precondition and reached the postcondition) plus driver cases whose solver query was non-trivially discharged",
        ),
        "samples": samples[:60],
        "functions_encoded": spec.get("functions", []),
        "source_blobs": blob_hashes(spec.get("files", [])),
        "bounds": spec.get("bounds", {}).get(tier, spec.get("bounds", {})),
        "outside_the_bound": spec.get("outside", []),
        "solver_queries": int(sum(r.get("z3_checks", 0) for r in records)),
        "solver_time_s": round(sum(r.get("z3_time_s", 0.0) for r in records), 3),
        "solver_unknown": int(sum(r.get("z3_unknown", 0) for r in records)),
        "per_obligation": [
            {k: r.get(k) for k in ("name", "engine", "verdict", "state", "twin_state", "paths", "z3_checks", "z3_time_s", "cpu_s", "timeout_s", "detail", "evaluations", "distinct_nontrivial") if r.get(k) is not None}
            for r in records
        ],
        "engine": "CrossHair %s + z3 %s" % _versions(),
        "exhaustive": False,
    }
    if level == "translation_validation":
        coverage["programs"] = int(sum(r.get("programs", 0) for r in records))
        coverage["disagreements_checked"] = int(sum(r.get("disagreements_checked", 0) for r in records))
    ev = {
        "property_id": prop,
        "tier": tier,
        "seed": int(os.environ.get("VERIF_SEED", "0") or 0),
        "level": level,
        "coverage": coverage,
        "assumptions": spec.get("assumptions", []) + ["stub: " + s for s in spec.get("stubs", [])],
        "wall_s": round(time.time() - t_start, 2),
        "violations": len(violations),
        "known_findings": [r["name"] for r in known_lines],
    }
    os.makedirs(os.path.join(ROOT, "evidence"), exist_ok=True)
    with open(os.path.join(ROOT, "evidence", prop + ".json"), "w") as f:
        json.dump(ev, f, indent=1, default=str)

    # ---- report
    for r in records:
        line = "  [%s] %-12s %s" % (r["engine"], r.get("verdict"), r["name"])
        if r.get("paths"):
            line += "  paths=%s z3=%s/%.1fs" % (r.get("paths"), r.get("z3_checks"), r.get("z3_time_s", 0))
        if r.get("verdict") in ("inconclusive", "harness_error", "violation"):
            line += "  :: " + str(r.get("detail") or r.get("counterexample") or "")[:400]
        print(line)
    for r in known_lines:
        print("KNOWN-FINDING: property=%s %s" % (prop, r.get("detail", r["name"])))
    print("%s tier=%s obligations=%d discharged=%d violations=%d wall=%.1fs" % (prop, tier, n_obl, n_dis, len(violations), time.time() - t_start))
    if violations:
        for name, path in violations:
            print("VIOLATION property=%s replay=%s" % (prop, path))
        return 1
    if harness_errors:
        for r in harness_errors:
            print("HARNESS-ERROR property=%s obligation=%s %s" % (prop, r["name"], str(r.get("detail"))[:600]))
        return 3
    return 0


def _versions():
    import crosshair
    import z3

    return crosshair.__version__, z3.get_version_string()


def main():
    ap = argparse.ArgumentParser()
    ap.add_argument("prop")
    ap.add_argument("--tier", default=os.environ.get("VERIF_TIER", "quick"), choices=["quick", "thorough"])
    ap.add_argument("--replay")
    a = ap.parse_args()
    if a.replay:
        p = subprocess.run([PY, a.replay], cwd=ROOT)
        if p.returncode == 1:
            print("VIOLATION property=%s replay=%s" % (a.prop, a.replay))
        sys.exit(p.returncode)
    sys.exit(run_property(a.prop, a.tier))


if __name__ == "__main__":
    main()
