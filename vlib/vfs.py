"""A tiny in-memory file layer under the harnesses' fake files.

Harness files are objects (FakePath) or FakeFS entries.  The code under test normally reaches them through the
methods those objects offer, or through an `open` installed in the module's namespace.  To keep a check from raising
a false alarm when the repository is refactored to read or write the same file another way (builtins.open on the
path, Path.read_text / write_text, os.path.exists, ...), the registered paths are ALSO served by patched
builtins.open / io.open / os.path.exists / pathlib.Path.exists / is_file.  Every other path goes to the real
functions."""
import builtins
import io
import os
import pathlib

REG = {}  # absolute path string -> handler with read_bytes() / write_bytes(b) [/ exists()]
_REAL_OPEN = io.open
_REAL_EXISTS = os.path.exists
_REAL_P_EXISTS = pathlib.Path.exists
_REAL_P_ISFILE = pathlib.Path.is_file
_installed = False


def register(path, handler):
    REG[str(path)] = handler


class _TextWriter(io.StringIO):
    def __init__(self, handler, encoding, errors=None):
        super().__init__()
        self._h, self._enc, self._errors, self._done = handler, encoding, errors, False

    def close(self):
        if not self._done:
            self._done = True
            try:
                data = self.getvalue().encode(self._enc, self._errors or "strict")
            finally:
                super().close()
            self._h.write_bytes(data)
            return
        super().close()


class _BytesWriter(io.BytesIO):
    def __init__(self, handler):
        super().__init__()
        self._h, self._done = handler, False

    def close(self):
        if not self._done:
            self._done = True
            self._h.write_bytes(self.getvalue())
        super().close()


def _lookup(file):
    if isinstance(file, int):
        return None
    try:
        return REG.get(os.fspath(file))
    except TypeError:
        return None


def _open(file, mode="r", buffering=-1, encoding=None, errors=None, newline=None, *a, **k):
    h = _lookup(file)
    if h is None:
        return _REAL_OPEN(file, mode, buffering, encoding, errors, newline, *a, **k)
    enc = encoding or "utf-8"
    if any(c in mode for c in "wax+"):
        if "w" in mode and hasattr(h, "truncate"):
            h.truncate()  # like the real open(): the old content is gone before anything is written
        return _BytesWriter(h) if "b" in mode else _TextWriter(h, enc, errors)
    data = h.read_bytes()
    if "b" in mode:
        return io.BytesIO(data)
    text = data.decode(enc, errors or "strict")
    if newline is None:
        text = text.replace("\r\n", "\n").replace("\r", "\n")
    return io.StringIO(text)


def _exists(path):
    h = _lookup(path)
    if h is None:
        return _REAL_EXISTS(path)
    return h.exists() if hasattr(h, "exists") else True


def _p_exists(self, *a, **k):
    h = _lookup(self)
    if h is None:
        return _REAL_P_EXISTS(self, *a, **k)
    return h.exists() if hasattr(h, "exists") else True


def _p_isfile(self, *a, **k):
    h = _lookup(self)
    if h is None:
        return _REAL_P_ISFILE(self, *a, **k)
    return h.exists() if hasattr(h, "exists") else True


def install():
    global _installed
    if _installed:
        return
    _installed = True
    builtins.open = _open
    io.open = _open
    os.path.exists = _exists
    pathlib.Path.exists = _p_exists
    pathlib.Path.is_file = _p_isfile


# ---------------------------------------------------------------- JSON documents built from symbolic parts
import json as _json

_MARK = "@@VERIF-JSON:"
_DOCS = {}
_REAL_LOAD, _REAL_LOADS = _json.load, _json.loads
_json_installed = False


class _Doc:
    def __init__(self, key):
        self.key = key

    def read_bytes(self):
        return (_MARK + self.key).encode()

    def write_bytes(self, b):
        raise PermissionError(self.key)


def _loads(s, *a, **k):
    if isinstance(s, (bytes, bytearray)):
        t = bytes(s).decode("utf-8", "replace")
    else:
        t = s
    if isinstance(t, str) and t.startswith(_MARK):
        return _DOCS[t[len(_MARK):]]
    return _REAL_LOADS(s, *a, **k)


def _load(fp, *a, **k):
    return _loads(fp.read(), *a, **k)


def json_file(name, data):
    """Register `name` as a file whose decoded JSON content is the Python object `data` (which may contain symbolic
    values): however the code under test reads the file and whichever of json.load / json.loads it calls."""
    global _json_installed
    install()
    if not _json_installed:
        _json_installed = True
        _json.load, _json.loads = _load, _loads
    _DOCS[str(name)] = data
    register(str(name), _Doc(str(name)))
