"""Symbolic integers for native-speed exploration of whole transformers (E3 'cells').

A SymInt is an affine term  var + offset  over named integer unknowns.  It supports +/- with ints and comparisons
with ints and other SymInts; every comparison is recorded as an atom and answered under the current witness
assignment.  Any other use raises Leak.  `cells()` asks z3 for one witness per consistent truth assignment of the
recorded atoms; running the real code once per witness and refining until no new atom appears covers every value
of the unknowns in Z^k, provided the code depends on them only through the recorded comparisons."""
import z3


class Leak(Exception):
    pass


class Space:
    def __init__(self, names):
        self.names = list(names)
        self.atoms = set()  # (lhs var|None, lhs off, op, rhs var|None, rhs off)
        self.witness = {n: 0 for n in names}

    def var(self, name, off=0):
        return SymInt(self, name, off)

    def value(self, v, off):
        return (self.witness[v] if v is not None else 0) + off

    def decide(self, lv, lo, op, rv, ro):
        self.atoms.add((lv, lo, op, rv, ro))
        a, b = self.value(lv, lo), self.value(rv, ro)
        return {"==": a == b, "!=": a != b, "<": a < b, "<=": a <= b, ">": a > b, ">=": a >= b}[op]

    def cells(self, constraints=()):
        zs = {n: z3.Int(n) for n in self.names}

        def term(v, o):
            return (zs[v] if v is not None else 0) + o

        ops = {"==": lambda a, b: a == b, "!=": lambda a, b: a != b, "<": lambda a, b: a < b, "<=": lambda a, b: a <= b, ">": lambda a, b: a > b, ">=": lambda a, b: a >= b}
        terms = [ops[op](term(lv, lo), term(rv, ro)) for (lv, lo, op, rv, ro) in sorted(self.atoms, key=repr)]
        s = z3.Solver()
        for c in constraints:
            s.add(c(zs))
        out, q = [], 0
        while True:
            q += 1
            if str(s.check()) != "sat":
                break
            m = s.model()
            out.append({n: m.eval(zs[n], model_completion=True).as_long() for n in self.names})
            if not terms:
                break
            s.add(z3.Or([t != z3.is_true(m.eval(t, model_completion=True)) for t in terms]))
        return out, q


class SymInt:
    def __init__(self, space, var, off=0):
        self.s, self.v, self.o = space, var, off

    def _other(self, o):
        if isinstance(o, SymInt):
            return o.v, o.o
        if isinstance(o, bool) or not isinstance(o, int):
            raise Leak("comparison with %r" % (o,))
        return None, int(o)

    def _cmp(self, op, o):
        rv, ro = self._other(o)
        return self.s.decide(self.v, self.o, op, rv, ro)

    def __eq__(self, o):
        if o is None:
            return False
        return self._cmp("==", o)

    def __ne__(self, o):
        if o is None:
            return True
        return self._cmp("!=", o)

    def __lt__(self, o):
        return self._cmp("<", o)

    def __le__(self, o):
        return self._cmp("<=", o)

    def __gt__(self, o):
        return self._cmp(">", o)

    def __ge__(self, o):
        return self._cmp(">=", o)

    def __add__(self, k):
        if isinstance(k, bool) or not isinstance(k, int):
            raise Leak("+ %r" % (k,))
        return SymInt(self.s, self.v, self.o + k)

    __radd__ = __add__

    def __sub__(self, k):
        if isinstance(k, bool) or not isinstance(k, int):
            raise Leak("- %r" % (k,))
        return SymInt(self.s, self.v, self.o - k)

    def __hash__(self):
        raise Leak("hash")

    def __index__(self):
        raise Leak("index")

    def __int__(self):
        raise Leak("int()")

    def __bool__(self):
        raise Leak("bool()")

    def __repr__(self):
        return "<%s%+d>" % (self.v, self.o) if self.o else "<%s>" % self.v


def explore(space, run, max_rounds=12, constraints=()):
    """run(witness) -> verdict (None = ok).  Returns ({witness tuple: verdict}, runs, z3 queries)."""
    done, runs, queries = {}, 0, 0
    for _ in range(max_rounds):
        ws, q = space.cells(constraints)
        queries += q
        new = [w for w in ws if tuple(sorted(w.items())) not in done]
        if not new:
            return done, runs, queries, True
        for w in new:
            space.witness = w
            done[tuple(sorted(w.items()))] = run(w)
            runs += 1
    return done, runs, queries, False
