"""CrossHair worker: analyse ONE harness condition in this process and print one JSON line.

usage: python -m vlib.xh_worker <module> <function> <per_condition_timeout> [twin]

The harness module is imported normally (so it imports the real repo modules from
/repo/src), the function's PEP316 contract is analysed with CrossHair's own
analyze_function / ConditionCheckable.analyze, and the verdict, the number of explored
paths, the number of z3 `check` calls and the time spent inside them are reported.
"""
import collections
import importlib
import json
import os
import re
import sys
import time


def main():
    mod_name, fn_name, timeout = sys.argv[1], sys.argv[2], float(sys.argv[3])
    twin = len(sys.argv) > 4 and sys.argv[4] == "twin"
    if twin:
        os.environ["VERIF_TWIN"] = "1"
    else:
        os.environ.pop("VERIF_TWIN", None)
    sys.setrecursionlimit(10000)

    import z3

    zstat = {"n": 0, "t": 0.0, "unknown": 0}
    _orig_check = z3.Solver.check

    def _check(self, *a):
        t0 = time.perf_counter()
        r = _orig_check(self, *a)
        zstat["t"] += time.perf_counter() - t0
        zstat["n"] += 1
        if str(r) == "unknown":
            zstat["unknown"] += 1
        return r

    z3.Solver.check = _check

    from crosshair.core_and_libs import analyze_function  # registers library patches
    from crosshair.options import AnalysisKind, AnalysisOptionSet

    # CrossHair may "short-circuit" a call to any function that itself carries a contract (its own
    # `hash()` patch does: post[]: -2**63 <= _ < 2**63) and continue with an arbitrary value of the
    # return type.  That over-approximation turned `dict.setdefault(Path(...))` inside the repo code
    # into a spurious TypeError (swallowed by the repo's broad `except Exception`).  Harness paths must
    # be real executions, so short-circuiting is switched off.
    import crosshair.core as _xcore

    _xcore.ShortCircuitingContext.make_interceptor = lambda self, original: original

    # CrossHair bypasses every functools.lru_cache (so that cached results cannot hide symbolic inputs).
    # typing / typing_extensions / libcst cache pure functions of *types* (Generic subscription, matcher
    # tables); bypassing them makes constructing one libcst visitor cost ~4.5 s per path.  Keep the bypass
    # for everything else (in particular the repo's own @cache loaders), re-enable the cache for those
    # three packages only.
    from functools import _lru_cache_wrapper

    from crosshair.tracers import NoTracing as _NoTracing

    def _call_lru(self, *a, **kw):
        if not isinstance(self, _lru_cache_wrapper):
            raise TypeError
        mod = getattr(self.__wrapped__, "__module__", "") or ""
        if mod.split(".")[0] in ("typing", "typing_extensions", "libcst"):
            with _NoTracing():
                try:
                    return _lru_cache_wrapper.__call__(self, *a, **kw)
                except TypeError:
                    pass  # unhashable argument: fall through to the uncached call
        if mod.split(".")[0] in ("codemodder", "core_codemods"):
            # The repo's own caches ARE part of the behaviour under test (a stale cache is a defect a run can
            # observe).  Model one process per path: the cache is live within a path and empty at its start; only
            # calls whose arguments are all concrete plain values are cached.
            with _NoTracing():
                key = _concrete_key(a, kw)
                if key is not None:
                    space = _current_space()
                    slot = _PER_PATH.get(id(self))
                    if slot is None or slot[0] is not space:
                        slot = _PER_PATH[id(self)] = (space, {})
                    if key in slot[1]:
                        return slot[1][key]
            res = self.__wrapped__(*a, **kw)
            if key is not None:
                with _NoTracing():
                    slot[1][key] = res
            return res
        return self.__wrapped__(*a, **kw)

    _PER_PATH = {}
    _PLAIN = (str, int, bool, bytes, float, type(None))

    def _plain(x):
        import pathlib

        t = type(x)
        if t in _PLAIN or issubclass(t, pathlib.PurePath):
            return True
        if t in (tuple, frozenset):
            return all(_plain(y) for y in x)
        return False

    def _concrete_key(a, kw):
        try:
            if all(_plain(x) for x in a) and all(_plain(v) for v in kw.values()):
                key = (a, tuple(sorted(kw.items())))
                hash(key)
                return key
        except Exception:  # noqa
            pass
        return None

    def _current_space():
        try:
            from crosshair.statespace import context_statespace

            return context_statespace()
        except Exception:  # noqa
            return None

    _xcore._PATCH_REGISTRATIONS[_lru_cache_wrapper.__call__] = _call_lru

    # CrossHair 0.0.110's model of list.index(value, start[, stop]) slices the list and returns the index relative
    # to the slice (["a".."f"].index("f", 4) == 1).  Replace it with a correct model (found when the repaired
    # setup.cfg writer, which calls list.index(value, start), misbehaved only under the tracer).
    from crosshair.tracers import ResumedTracing as _Resumed

    def _list_index_fixed(self, value, *bounds):
        with _NoTracing():
            if not isinstance(self, list):
                raise TypeError
            n = len(self)
            rng = range(n)[slice(bounds[0], bounds[1] if len(bounds) > 1 else None)] if bounds else range(n)
            for idx in rng:
                with _Resumed():
                    isequal = value == self[idx]
                if isequal:
                    return idx
            raise ValueError

    _xcore._PATCH_REGISTRATIONS[list.index] = _list_index_fixed

    t_imp = time.perf_counter()
    mod = importlib.import_module(mod_name)
    fn = getattr(mod, fn_name)
    if hasattr(mod, "warmup"):
        # force lazily-built state (pydantic validators, caches, dataclass machinery) before tracing
        try:
            mod.warmup()
        except Exception:  # noqa  (a defect that breaks a warm-up call must surface through its obligation, not here)
            import traceback

            traceback.print_exc()
    import_s = time.perf_counter() - t_imp

    opts = AnalysisOptionSet(
        per_condition_timeout=timeout,
        report_all=True,
        analysis_kind=[AnalysisKind.PEP316],
        max_uninteresting_iterations=sys.maxsize,
    )
    out = {
        "module": mod_name,
        "function": fn_name,
        "twin": twin,
        "timeout": timeout,
        "import_s": round(import_s, 3),
        "conditions": [],
    }
    checkables = analyze_function(fn, opts)
    if not checkables:
        out["error"] = "no conditions found"
    for c in checkables:
        stats = collections.Counter()
        if hasattr(c, "options"):
            c.options.stats = stats
        t0 = time.perf_counter()
        p0 = time.process_time()
        msgs = list(c.analyze())
        rec = {
            "wall_s": round(time.perf_counter() - t0, 3),
            "cpu_s": round(time.process_time() - p0, 3),
            "paths": stats.get("num_paths", 0),
            "messages": [],
        }
        conds = getattr(c, "conditions", None)
        if conds is not None:
            rec["post"] = conds.post[0].expr_source
            rec["pre"] = [p.expr_source for p in conds.pre]
        for m in msgs:
            call = None
            mm = re.search(r"when calling (.*?)(?: \(which returns (.*)\))?$", m.message, re.S)
            if mm:
                call = mm.group(1)
            rec["messages"].append(
                {
                    "state": m.state.name,
                    "message": m.message,
                    "line": m.line,
                    "call": call,
                    "traceback": (m.traceback or "")[-1500:],
                }
            )
        out["conditions"].append(rec)
    out["z3_checks"] = zstat["n"]
    out["z3_time_s"] = round(zstat["t"], 3)
    out["z3_unknown"] = zstat["unknown"]
    sys.stdout.write("\n@@XH@@" + json.dumps(out) + "\n")
    sys.stdout.flush()


if __name__ == "__main__":
    main()
