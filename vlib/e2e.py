"""End-to-end driver for public-API demonstrations: run the real `codemodder.run` on a scratch project."""
import contextlib
import io
import json
import logging
import os
import shutil
import tempfile
from pathlib import Path


def run_codemodder(files: dict, codemods=None, extra_args=(), keep=False):
    """files: {relative path: str|bytes}.  Returns (exit_status, report dict or None, {rel: bytes after})."""
    from codemodder.codemodder import run

    d = Path(tempfile.mkdtemp(prefix="verif_e2e_"))
    try:
        proj = d / "proj"
        proj.mkdir()
        for rel, content in files.items():
            p = proj / rel
            p.parent.mkdir(parents=True, exist_ok=True)
            p.write_bytes(content if isinstance(content, bytes) else content.encode("utf-8"))
        out = d / "report.codetf"
        args = [str(proj), "--output", str(out)]
        for c in codemods or []:
            args += ["--codemod-include", c]
        args += list(extra_args)
        buf = io.StringIO()
        with contextlib.redirect_stdout(buf), contextlib.redirect_stderr(buf):
            try:
                status = run(args)
            except SystemExit as e:
                status = e.code
        logging.getLogger("codemodder").handlers.clear()
        report = json.loads(out.read_text()) if out.exists() else None
        after = {}
        for p in sorted(proj.rglob("*")):
            if p.is_file():
                after[str(p.relative_to(proj))] = p.read_bytes()
        return status, report, after
    finally:
        if not keep:
            shutil.rmtree(d, ignore_errors=True)
