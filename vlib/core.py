"""Helpers imported by harness modules (kept tiny: they run under CrossHair's tracer)."""
import json
import os

TIER = os.environ.get("VERIF_TIER", "quick")
TWIN = os.environ.get("VERIF_TWIN") == "1"
ROOT = os.path.dirname(os.path.dirname(os.path.abspath(__file__)))


def tier(quick, thorough):
    return thorough if TIER == "thorough" else quick


def fin(cond=True):
    """Final verdict of a harness condition.  In reachability-twin mode the verdict is
    negated, so a twin is refuted exactly on a path that reaches the end of the harness
    with the property holding: that counterexample is the non-vacuity witness."""
    if TWIN:
        return not cond
    return cond


class NoLog:
    """logger stub: every method has an empty body; `exception` calls are counted."""

    def __init__(self):
        self.exceptions = 0

    def exception(self, *a, **k):
        self.exceptions += 1

    def __getattr__(self, k):
        return lambda *a, **kw: None


def _load_known():
    p = os.path.join(ROOT, "known_findings.json")
    try:
        with open(p) as f:
            return json.load(f)
    except FileNotFoundError:
        return {"findings": []}


_KNOWN = _load_known()


def known_active(key: str) -> bool:
    """True iff `key` is listed with status 'known' (NOT 'fixed') in known_findings.json.
    Harnesses use it to carve the exact shape of a recorded finding out of a symbolic
    obligation; the finding itself is replayed concretely by the runner on every run."""
    for f in _KNOWN.get("findings", []):
        if f.get("key") == key and f.get("status") == "known":
            return True
    return False


def known_entries(prop: str):
    return [f for f in _KNOWN.get("findings", []) if f.get("property") == prop]
