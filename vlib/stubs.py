"""Nondeterministic environment stubs shared by the skeleton harnesses."""
from pathlib import Path

from vlib import vfs

vfs.install()


class FakePath:
    """Stands for a file under the target directory.  Records every mutation."""

    def __init__(self, content: bytes, rel: str = "f.py", vanished: bool = False, base: str = "/d", unwritable: bool = False):
        self.unwritable = unwritable
        self.content = content
        self.rel = rel
        self.base = base
        self.vanished = vanished
        self.writes = []
        self.other_mutations = []
        self.suffix = Path(rel).suffix
        self.name = Path(rel).name
        vfs.register(self.base + "/" + self.rel, self)

    def exists(self):
        return not self.vanished

    def is_file(self):
        return not self.vanished

    def open(self, mode="r", *a, **k):
        return vfs._open(self, mode, *a, **k)

    def read_bytes(self):
        if self.vanished:
            raise FileNotFoundError(self.rel)
        return self.content

    def read_text(self, *a, **k):
        return self.read_bytes().decode("utf-8")

    def write_bytes(self, b):
        if self.unwritable:
            raise PermissionError(13, "Permission denied", self.rel)
        self.writes.append(b)
        self.content = b

    def write_text(self, s, *a, **k):
        self.write_bytes(s.encode("utf-8"))

    def unlink(self, *a, **k):
        self.other_mutations.append("unlink")

    def rename(self, *a, **k):
        self.other_mutations.append("rename")

    def touch(self, *a, **k):
        self.other_mutations.append("touch")

    def mkdir(self, *a, **k):
        self.other_mutations.append("mkdir")

    def relative_to(self, d):
        return Path(self.rel)

    def __fspath__(self):
        return self.base + "/" + self.rel

    def __str__(self):
        return self.base + "/" + self.rel

    def __hash__(self):
        return hash(self.rel)

    def __eq__(self, other):
        return isinstance(other, FakePath) and other.rel == self.rel


class Ctx:
    """Minimal CodemodExecutionContext stand-in for pipeline.apply()."""

    def __init__(self, dry_run: bool, directory: str = "/d"):
        self.dry_run = dry_run
        self.directory = Path(directory)
        self.path_include = []
        self.path_exclude = []
        self.max_workers = 1


class Boom(Exception):
    pass


class _Writer:
    def __init__(self, fs, path, fail):
        self.fs, self.path, self.buf, self.fail = fs, path, [], fail

    def __enter__(self):
        if self.fail:
            raise PermissionError(self.path)
        return self

    def __exit__(self, *a):
        if a[0] is None:
            self.fs.files[self.path] = "".join(self.buf)
            self.fs.writes.append((self.path, self.fs.files[self.path]))
        return False

    def write(self, s):
        self.buf.append(s)
        return len(s)

    def writelines(self, lines):
        for l in lines:
            self.buf.append(l)


class _Reader:
    def __init__(self, text):
        self.text = text

    def __enter__(self):
        return self

    def __exit__(self, *a):
        return False

    def read(self, *a):
        return self.text

    def readlines(self):
        # text-mode universal newlines: content here only uses "\n"
        parts = self.text.split("\n")
        out = [p + "\n" for p in parts[:-1]]
        if parts[-1]:
            out.append(parts[-1])
        return out

    def __iter__(self):
        return iter(self.readlines())


class _FsEntry:
    """vfs handler for one FakeFS file: the same content and write log, whichever way the file is reached."""

    def __init__(self, fs, path):
        self.fs, self.path = fs, path

    def read_bytes(self):
        if self.path not in self.fs.files:
            raise FileNotFoundError(self.path)
        v = self.fs.files[self.path]
        return v if isinstance(v, bytes) else v.encode("utf-8")

    def write_bytes(self, b):
        if self.fs.unwritable:
            raise PermissionError(self.path)
        try:
            self.fs.files[self.path] = b.decode("utf-8")
        except UnicodeDecodeError:
            self.fs.files[self.path] = bytes(b)
        self.fs.writes.append((self.path, self.fs.files[self.path]))

    def exists(self):
        return self.path in self.fs.files

    def truncate(self):
        """open(path, 'w') empties the file at once; if the writer then fails (encoding error), it stays empty."""
        if self.fs.unwritable:
            raise PermissionError(self.path)
        if self.path in self.fs.files:
            self.fs.files[self.path] = "" if isinstance(self.fs.files[self.path], str) else b""
            self.fs.truncated.append(self.path)


class FakeFS:
    """In-memory text files behind an `open` replacement; records every write."""

    def __init__(self, files: dict, unwritable: bool = False):
        self.files = {str(k): v for k, v in files.items()}
        self.writes = []
        self.truncated = []
        self.unwritable = unwritable
        for k in self.files:
            vfs.register(k, _FsEntry(self, k))

    def open(self, path, mode="r", *a, **k):
        """`open` replacement for a module namespace; same behaviour as the vfs-patched builtins.open."""
        p = str(path)
        if p not in vfs.REG:
            vfs.register(p, _FsEntry(self, p))
        return vfs._open(p, mode, *a, **k)
