"""Nondeterministic environment stubs shared by the skeleton harnesses."""
from pathlib import Path


class FakePath:
    """Stands for a file under the target directory.  Records every mutation."""

    def __init__(self, content: bytes, rel: str = "f.py", vanished: bool = False, base: str = "/d"):
        self.content = content
        self.rel = rel
        self.base = base
        self.vanished = vanished
        self.writes = []
        self.other_mutations = []
        self.suffix = Path(rel).suffix
        self.name = Path(rel).name

    def read_bytes(self):
        if self.vanished:
            raise FileNotFoundError(self.rel)
        return self.content

    def read_text(self, *a, **k):
        return self.read_bytes().decode("utf-8")

    def write_bytes(self, b):
        self.writes.append(b)
        self.content = b

    def write_text(self, s, *a, **k):
        self.write_bytes(s.encode("utf-8"))

    def unlink(self, *a, **k):
        self.other_mutations.append("unlink")

    def rename(self, *a, **k):
        self.other_mutations.append("rename")

    def touch(self, *a, **k):
        self.other_mutations.append("touch")

    def mkdir(self, *a, **k):
        self.other_mutations.append("mkdir")

    def relative_to(self, d):
        return Path(self.rel)

    def __fspath__(self):
        return self.base + "/" + self.rel

    def __str__(self):
        return self.base + "/" + self.rel

    def __hash__(self):
        return hash(self.rel)

    def __eq__(self, other):
        return isinstance(other, FakePath) and other.rel == self.rel


class Ctx:
    """Minimal CodemodExecutionContext stand-in for pipeline.apply()."""

    def __init__(self, dry_run: bool, directory: str = "/d"):
        self.dry_run = dry_run
        self.directory = Path(directory)
        self.path_include = []
        self.path_exclude = []
        self.max_workers = 1


class Boom(Exception):
    pass
