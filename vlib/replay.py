"""Concrete replay of a counterexample: evaluate the harness call (which drives the real
repo code) outside CrossHair.  exit 1 / 'REPRODUCED' when the property fails concretely."""
import importlib
import sys
import traceback


def replay_call(mod_name: str, fn_name: str, call_text: str, quiet=False) -> int:
    mod = importlib.import_module(mod_name)
    ns = dict(vars(mod))
    ns.setdefault("float", float)
    try:
        r = eval(call_text, ns)
    except BaseException as e:  # noqa
        if not quiet:
            traceback.print_exc()
        print(f"REPRODUCED: {call_text} raised {type(e).__name__}: {e}")
        return 1
    if r is False or r is None and False:
        print(f"REPRODUCED: {call_text} returned {r!r}")
        return 1
    if not r:
        print(f"REPRODUCED: {call_text} returned {r!r}")
        return 1
    print(f"NOT-REPRODUCED: {call_text} returned {r!r}")
    return 0


if __name__ == "__main__":
    sys.exit(replay_call(sys.argv[1], sys.argv[2], sys.argv[3]))
