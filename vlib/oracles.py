"""Reference oracles (hand-written specs).  Each is validated concretely against the real thing by the
property checks that use it."""


def split_nl(text: str) -> list:
    """Lines of `text` as a '\\n'-only reader (patch(1), git apply) sees them, without terminators."""
    if text == "":
        return []
    parts = text.split("\n")
    if parts[-1] == "":
        parts.pop()
    return parts


class PatchError(Exception):
    pass


def apply_unified_diff(before: str, diff: str) -> str:
    """Apply a unified diff the way a '\\n'-only tool does.  Returns the patched text with every
    line '\\n'-terminated.  Raises PatchError when context/removed lines do not match `before`."""
    src = split_nl(before)
    if diff == "":
        return "".join(l + "\n" for l in src)
    dl = split_nl(diff)
    out = []
    pos = 0  # index into src
    i = 0
    # headers
    while i < len(dl) and not dl[i].startswith("@@"):
        if not (dl[i].startswith("---") or dl[i].startswith("+++")):
            raise PatchError("unexpected line before first hunk: %r" % dl[i])
        i += 1
    while i < len(dl):
        h = dl[i]
        if not h.startswith("@@"):
            raise PatchError("expected hunk header, got %r" % h)
        parts = h.split(" ")
        a = parts[1][1:].split(",")
        b = parts[2][1:].split(",")
        a_start, a_len = int(a[0]), (int(a[1]) if len(a) > 1 else 1)
        b_len = int(b[1]) if len(b) > 1 else 1
        start = a_start - 1 if a_len > 0 else a_start
        if start < pos:
            raise PatchError("overlapping hunks")
        out.extend(src[pos:start])
        pos = start
        i += 1
        seen_a = seen_b = 0
        while seen_a < a_len or seen_b < b_len:
            if i >= len(dl):
                raise PatchError("truncated hunk")
            l = dl[i]
            tag, body = l[:1], l[1:]
            if tag == " ":
                if pos >= len(src) or src[pos] != body:
                    raise PatchError("context mismatch at source line %d: %r vs %r" % (pos + 1, body, src[pos] if pos < len(src) else None))
                out.append(body)
                pos += 1
                seen_a += 1
                seen_b += 1
            elif tag == "-":
                if pos >= len(src) or src[pos] != body:
                    raise PatchError("removed-line mismatch at source line %d: %r vs %r" % (pos + 1, body, src[pos] if pos < len(src) else None))
                pos += 1
                seen_a += 1
            elif tag == "+":
                out.append(body)
                seen_b += 1
            else:
                raise PatchError("bad hunk line %r" % l)
            i += 1
    out.extend(src[pos:])
    return "".join(l + "\n" for l in out)


def same_up_to_final_newline(a: str, b: str) -> bool:
    if a.endswith("\n"):
        a = a[:-1]
    if b.endswith("\n"):
        b = b[:-1]
    return a == b


def diff_matches(before: str, after: str, diff: str) -> bool:
    """The C03 oracle: patch(diff, before) == after up to the presence of a final newline."""
    try:
        return same_up_to_final_newline(apply_unified_diff(before, diff), after)
    except PatchError:
        return False
