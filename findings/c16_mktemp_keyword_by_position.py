"""C16 demonstration (FIXED): secure-tempfile renamed the arguments of tempfile.mktemp by position only:
`r = tempfile.mktemp(prefix='p')` became `with tempfile.NamedTemporaryFile(suffix="p", delete=False) as tf: r = tf.name`.
Complete real pipeline of pixee:python/secure-tempfile.  exit 1 = defect present."""
import sys

from harness import hardsast

for args in (3, 4):  # prefix='p'   /   dir='d', suffix='s'
    v = hardsast.check("secure-tempfile", 0, args, 0, 0)
    if v:
        print("DEFECT:", v.replace("\n", " | ")[:500])
        sys.exit(1)
print("ok")
