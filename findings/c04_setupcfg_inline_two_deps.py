"""C04/C14 public-API demonstration: a setup.cfg with a comma-separated `install_requires` and a fix that
needs two packages.  The real run must either leave the manifest alone or return a ChangeSet; before the
repair it rewrote setup.cfg and then raised IndexError (a modified file with no changeset, and a crash that
the dry run 'predicts' only as an exception).  exit 1 = defect present."""
import sys
import tempfile
from pathlib import Path

from codemodder.dependency import DefusedXML, Security
from codemodder.dependency_management import DependencyManager
from codemodder.project_analysis.file_parsers.package_store import FileType, PackageStore

TEXT = "[options]\ninstall_requires = requests, flask\n"
with tempfile.TemporaryDirectory() as d:
    p = Path(d) / "setup.cfg"
    p.write_text(TEXT)
    store = PackageStore(type=FileType.SETUP_CFG, file=p, dependencies={"requests", "flask"}, py_versions=[])
    try:
        cs = DependencyManager(store, Path(d)).write([DefusedXML, Security], dry_run=False)
        exc = None
    except Exception as e:  # noqa
        cs, exc = None, e
    changed = p.read_text() != TEXT
if exc is not None or (changed and cs is None):
    print("DEFECT: manifest changed=%s changeset=%s exception=%r" % (changed, cs is not None, exc))
    sys.exit(1)
if cs is not None and not all("defusedxml" in x or "security" in x for x in [cs.diff]):
    sys.exit(1)
print("ok")
