"""C12 demonstration (FIXED): a Sonar JSON file listing both `issues` and `hotspots`: the hotspots were dropped
(operator precedence in `issues or [] + hotspots or []`).  exit 1 = defect present."""
import sys

from harness import c12
from vlib import core

core.TWIN = False
c12.warmup()
if not c12.sonar_reader_pair(0, False, 1, False, False, 3, 1, mixed=True):
    print("DEFECT: the hotspot of a file that also lists an issue is lost")
    sys.exit(1)
print("ok")
