"""C16 demonstration (FIXED by the secure-random alias fix): with `from random import randint as G`, a finding on
`G(1, 2)` was rewritten to `secrets.SystemRandom().G(1, 2)` - the alias, not the function, was carried over to the
safe API (AttributeError at run time).  The complete real transformer chain is driven with one result placed on the
call, as the Semgrep / Sonar detectors report it.  exit 1 = defect present."""
import sys

from harness import hardsast

src = "from random import randint as G\n\nr = G(1, 2)\n"
out, _fc = hardsast.run("secure-random", src)
env = {}
try:
    exec(compile(out, "m.py", "exec"), env)
    ok = isinstance(env.get("r"), int)
except Exception as e:  # noqa
    print("DEFECT: rewritten program raises %s: %s | %s" % (type(e).__name__, e, out.replace("\n", " | ")))
    sys.exit(1)
print("ok" if ok else "DEFECT: r is not an int")
sys.exit(0 if ok else 1)
