"""C20 public-API demonstration: --output points into a directory that does not exist; the run must exit
with status 2 ("report cannot be written").  exit 1 = defect present."""
import contextlib
import io
import sys
import tempfile
from pathlib import Path

from codemodder.codemodder import run

with tempfile.TemporaryDirectory() as d:
    proj = Path(d) / "proj"
    proj.mkdir()
    (proj / "m.py").write_text("x = 1\n")
    buf = io.StringIO()
    with contextlib.redirect_stdout(buf), contextlib.redirect_stderr(buf):
        try:
            status = run([str(proj), "--output", str(Path(d) / "missing-dir" / "out.codetf"), "--codemod-include", "pixee:python/use-walrus-if"])
        except SystemExit as e:
            status = e.code
if status != 2:
    print("DEFECT: exit status %r for an unwritable report, expected 2" % status)
    sys.exit(1)
print("ok")
