"""C10 public-API demonstration: the regex and XML pipelines offered to plugin codemods are applied to a
file that is not valid UTF-8 / disappears.  The file must be reported as failed with its findings unfixed and
no exception may escape apply() (an escaping exception aborts the whole codemod and the run).
exit 1 = defect present."""
import sys
import tempfile
from pathlib import Path

from codemodder.codemods.regex_transformer import RegexTransformerPipeline
from codemodder.codemods.xml_transformer import ElementAttributeXMLTransformer, XMLTransformerPipeline
from codemodder.file_context import FileContext


class Ctx:
    dry_run = False

    def __init__(self, d):
        self.directory = d


bad = []
with tempfile.TemporaryDirectory() as d:
    d = Path(d)
    (d / "latin1.txt").write_bytes(b"caf\xe9 = 1\n")
    for name in ("latin1.txt", "missing.txt"):
        fc = FileContext(d, d / name, [], [], [])
        try:
            cs = RegexTransformerPipeline(pattern="1", replacement="2", change_description="x").apply(Ctx(d), fc, [])
            if cs is not None or fc.failures != [d / name]:
                bad.append("regex/%s: changeset=%s failures=%s" % (name, cs, fc.failures))
        except Exception as e:  # noqa
            bad.append("regex/%s: %s escaped apply()" % (name, type(e).__name__))

    class T(ElementAttributeXMLTransformer):
        def __init__(self, out, file_context, results=None, **kw):
            super().__init__(out, file_context, name_attributes_map={"a": {"x": "1"}}, results=results)

    fc = FileContext(d, d / "missing.xml", [], [], None)
    try:
        cs = XMLTransformerPipeline(T).apply(Ctx(d), fc, None)
        if cs is not None or fc.failures != [d / "missing.xml"]:
            bad.append("xml/missing: changeset=%s failures=%s" % (cs, fc.failures))
    except Exception as e:  # noqa
        bad.append("xml/missing: %s escaped apply()" % type(e).__name__)
if bad:
    print("DEFECT:", "; ".join(bad))
    sys.exit(1)
print("ok")
