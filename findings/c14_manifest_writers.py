"""C14 public-API demonstrations (three repaired defects), on real files:
 (1) a package already declared under another spelling must not be added again;
 (2) an empty requirements.txt gets the requirement instead of an IndexError;
 (3) a requirement that also appears under setup_requires must be added to install_requires.
exit 1 = a defect is present."""
import sys
import tempfile
from pathlib import Path

from codemodder.dependency import DefusedXML
from codemodder.dependency_management import DependencyManager
from codemodder.project_analysis.file_parsers.package_store import FileType, PackageStore

bad = []
with tempfile.TemporaryDirectory() as d:
    d = Path(d)
    p = d / "requirements.txt"
    p.write_text("requests\nDefusedXML==0.6.0\n")
    store = PackageStore(type=FileType.REQ_TXT, file=p, dependencies={"requests", "DefusedXML==0.6.0"}, py_versions=[])
    DependencyManager(store, d).write([DefusedXML], False)
    if p.read_text().lower().count("defusedxml") != 1:
        bad.append("requirement added although declared as 'DefusedXML': %r" % p.read_text())
    p.write_text("")
    store = PackageStore(type=FileType.REQ_TXT, file=p, dependencies=set(), py_versions=[])
    try:
        DependencyManager(store, d).write([DefusedXML], False)
        if p.read_text() != "defusedxml==0.7.1\n":
            bad.append("empty requirements.txt became %r" % p.read_text())
    except Exception as e:  # noqa
        bad.append("empty requirements.txt: %r" % e)
    c = d / "setup.cfg"
    c.write_text("[options]\nsetup_requires =\n    six\ninstall_requires =\n    requests\n    six\n")
    store = PackageStore(type=FileType.SETUP_CFG, file=c, dependencies={"requests", "six"}, py_versions=[])
    DependencyManager(store, d).write([DefusedXML], False)
    import configparser

    cp = configparser.ConfigParser()
    cp.read(c)
    if "defusedxml" not in cp["options"]["install_requires"] or "defusedxml" in cp["options"]["setup_requires"]:
        bad.append("setup.cfg: install_requires=%r setup_requires=%r" % (cp["options"]["install_requires"], cp["options"]["setup_requires"]))
if bad:
    print("DEFECT:", "; ".join(bad))
    sys.exit(1)
print("ok")
