"""C02 demonstration (KNOWN FINDING): fix-dataclass-defaults wraps a non-empty mutable default in `lambda: ...` inside the
class body; a default that mentions another class-level name (`items: list = [DEFAULT]`) then reads that name from a
lambda scope, where class-scope names are not visible: unresolved(after) gains DEFAULT.  exit 1 = defect present."""
import sys

from harness import hardsast
from tv import driver

src = "from dataclasses import dataclass\n\n@dataclass\nclass C:\n    DEFAULT = 3\n    items: list = [DEFAULT]\n"
out, _ = driver.run_pipeline(hardsast._reg()["pixee:python/fix-dataclass-defaults"], src)
new = hardsast.unresolved(out) - hardsast.unresolved(src)
if new:
    print("DEFECT: names became unresolved %r: %s" % (sorted(new), out.replace("\n", " | ")))
    sys.exit(1)
print("ok")
