"""C13 demonstrations (FIXED: 46c12e7 remove-future-imports, b3ffc0f break-or-continue-out-of-loop): the transformer
never consulted the path:line filter - a site on an excluded line was rewritten and reported.
usage: c13_line_filter_ignored.py <remove-future-imports|break-or-continue-out-of-loop>   exit 1 = defect present."""
import sys

from harness import c13w

name = sys.argv[1] if len(sys.argv) > 1 else "remove-future-imports"
line = 2
out, lines = c13w._run(name, [line], [])
v = c13w._verdict(name, line, False, out, lines, None)
if v:
    print("DEFECT:", v)
    sys.exit(1)
print("ok")
