"""C01 demonstrations (FIXED: b73f8b6 remove-future-imports trailing comma, 1ca05a7 fix-empty-sequence-comparison
parentheses, db0142e fix-assert-tuple multi-line elements, 27e31ea use-walrus-if tuple value): the rewritten file did not parse.
usage: c01_invalid_python_shapes.py <future|emptyseq|asserttuple|walrus>      exit 1 = defect present."""
import sys

from harness import stmtfam

which = sys.argv[1] if len(sys.argv) > 1 else "future"
entry = {"future": 10, "asserttuple": 12, "emptyseq": 13, "walrus": 15}[which]
for ctx in (0, 1):
    v = stmtfam.check(entry, ctx, 0, 0, 0, 0)
    if v:
        print("DEFECT:", v.replace("\n", " | ")[:500])
        sys.exit(1)
print("ok")
