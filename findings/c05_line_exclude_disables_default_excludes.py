"""C05 public-API demonstration: `--path-exclude 'src/app.py:3'` excludes one line; it must not make codemodder
start rewriting files under tests/ (default file-level excludes).  exit 1 = defect present."""
import sys

from vlib.e2e import run_codemodder

SRC = "def f(x):\n    return x.startswith('a') or x.startswith('b')\n"
files = {"src/app.py": SRC, "tests/test_app.py": SRC}
status, report, after = run_codemodder(files, ["pixee:python/combine-startswith-endswith"], ["--path-exclude", "src/app.py:3"])
if after["tests/test_app.py"].decode() != SRC:
    print("DEFECT: tests/test_app.py was rewritten although only a line of src/app.py was excluded")
    sys.exit(1)
if after["src/app.py"].decode() == SRC:
    print("unexpected: src/app.py not fixed")
    sys.exit(2)
print("ok")
