"""C12 public-API demonstration: two Sonar issue files reporting the same rule (in different source
files) are combined by the real loader; every open finding must reach the codemod.
exit 1 = defect present (a finding is lost or the merge raises)."""
import json
import sys
import tempfile
from pathlib import Path

from core_codemods.sonar.api import process_sonar_findings
from core_codemods.sonar.results import SonarResultSet


def issue(key, rule, comp, line):
    return {"key": key, "rule": rule, "status": "OPEN", "component": "proj:" + comp,
            "textRange": {"startLine": line, "endLine": line, "startOffset": 0, "endOffset": 5}}


with tempfile.TemporaryDirectory() as d:
    f1, f2, f3 = Path(d) / "one.json", Path(d) / "two.json", Path(d) / "three.json"
    f1.write_text(json.dumps({"issues": [issue("k1", "python:S1", "a.py", 1)]}))
    f2.write_text(json.dumps({"issues": [issue("k2", "python:S1", "b.py", 2)]}))
    f3.write_text(json.dumps({"issues": [issue("k3", "python:S2", "a.py", 3)]}))
    bad = []
    try:
        merged = process_sonar_findings.__wrapped__((str(f1), str(f2), str(f3)))
        ids = sorted(r.finding_id for by_file in merged.values() for lst in by_file.values() for r in lst)
        if ids != ["k1", "k2", "k3"]:
            bad.append("|= over three files delivered %s, expected ['k1','k2','k3']" % ids)
    except Exception as e:  # noqa
        bad.append("|= raised %r" % e)
    try:
        a, b = SonarResultSet.from_json.__wrapped__(SonarResultSet, f1), SonarResultSet.from_json.__wrapped__(SonarResultSet, f3)
        ids = sorted(r.finding_id for by_file in (a | b).values() for lst in by_file.values() for r in lst)
        if ids != ["k1", "k3"]:
            bad.append("| delivered %s" % ids)
    except Exception as e:  # noqa
        bad.append("`|` of result sets with different rules raised %r" % e)
if bad:
    print("DEFECT:", "; ".join(bad))
    sys.exit(1)
print("ok")
