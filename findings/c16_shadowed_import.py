"""C16 public-API demonstration (KNOWN FINDING): use-defusedxml rewrites a call that is merely SPELLED like
xml.dom.minidom.parse but is bound, by a function-local import, to another package.  exit 1 = defect present."""
import sys

from harness import hardenfam

verdict = hardenfam.check(hardenfam.TABLE[0], 0, 0, 1)
if verdict:
    print("DEFECT:", verdict.replace("\n", " | "))
    sys.exit(1)
print("ok")
