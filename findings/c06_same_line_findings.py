"""C06 public-API demonstration (KNOWN FINDING): two equally vulnerable sites on ONE physical line, each with its
own Sonar hotspot.  Both are rewritten (fine), but every change entry carries BOTH findings, i.e. a change entry
carries the finding of another site.  exit 1 = defect present."""
import json
import sys
import tempfile
from pathlib import Path

from vlib.e2e import run_codemodder

CODE = "import random\n\n\ndef pair():\n    return random.random(), random.random()\n"
#                      0123456789012345678901234567890123456789012345
# line 5: '    return random.random(), random.random()'  -> sites at columns 11..26 and 28..43


def hotspot(key, start, end):
    return {"key": key, "ruleKey": "python:S2245", "status": "TO_REVIEW", "component": "proj:code.py", "message": "m",
            "textRange": {"startLine": 5, "endLine": 5, "startOffset": start, "endOffset": end}}


with tempfile.TemporaryDirectory() as d:
    export = Path(d) / "hotspots.json"
    export.write_text(json.dumps({"hotspots": [hotspot("K-left", 11, 26), hotspot("K-right", 28, 43)]}))
    status, report, after = run_codemodder({"code.py": CODE}, ["sonar:python/secure-random"], ["--sonar-hotspots-json", str(export)])
res = [r for r in report["results"] if r["codemod"] == "sonar:python/secure-random"][0]
changes = [(c["lineNumber"], sorted(f["id"] for f in c.get("findings") or [])) for cs in res["changeset"] for c in cs["changes"]]
if status != 0 or len(changes) != 2:
    print("unexpected outcome", status, changes)
    sys.exit(2)
if any(len(ids) != 1 for _, ids in changes):
    print("DEFECT: each change entry carries the findings of both sites:", changes)
    sys.exit(1)
print("ok", changes)
