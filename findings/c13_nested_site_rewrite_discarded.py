"""C13 demonstrations (FIXED: a95273f use-generator, d35c87c use-walrus-if, d5f781a fix-empty-sequence-comparison):
a site nested inside a node of the same kind that is NOT itself a site (`print(all([..]))`, an `if` inside an `if`,
`(x == []) == flag`) had its change entry recorded, but the enclosing node's leave_ method returned `original_node`
and threw the edit away: {change.lineNumber} != lines rewritten, without any line pattern involved.
usage: c13_nested_site_rewrite_discarded.py <use-generator|use-walrus-if|fix-empty-sequence-comparison>
exit 1 = defect present."""
import sys

from harness import c13w

which = sys.argv[1] if len(sys.argv) > 1 else "use-generator"
if which == "use-walrus-if":
    v = c13w.no_pattern_verdict("use-walrus-if#nested")
else:
    name = which + "#nested"
    out, lines = c13w._run(name, [], [])
    src_lines = c13w.SOURCES[name].split("\n")
    v = None
    for L in lines:
        if src_lines[L - 1].strip() in [l.strip() for l in out.split("\n")]:
            v = "a change entry names line %d, but that line was not rewritten: %r" % (L, src_lines[L - 1])
if v:
    print("DEFECT:", v.replace("\n", " | ")[:500])
    sys.exit(1)
print("ok")
