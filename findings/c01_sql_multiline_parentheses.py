"""C01 / C08 demonstration (FIXED a7fcd25): sql-parameterization on a formatter-style query - one operand per line
inside parentheses, the closing quote a literal of its own: removing the emptied literal returned the left operand
WITHOUT the parentheses of the concatenation, leaving bare continuation lines (IndentationError).
exit 1 = defect present."""
import sys

from harness import sqlfam

for np_ in (1, 2):
    v = sqlfam.check(4, np_, 1, 1, 1)
    if v:
        print("DEFECT:", v.replace("\n", " | ")[:600])
        sys.exit(1)
print("ok")
