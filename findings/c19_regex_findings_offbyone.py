"""C19 public-API demonstration: SAST-driven regex pipeline on a 3-line file with one finding on line 2.
The change for line 2 must carry that finding.  exit 1 = defect present."""
import sys
import tempfile
from pathlib import Path

from codemodder.codemods.regex_transformer import RegexTransformerPipeline, SastRegexTransformerPipeline
from codemodder.codetf import Finding, Rule
from codemodder.file_context import FileContext
from codemodder.result import LineInfo, Location, Result


class L(Location):
    pass


class R(Result):
    pass


class Ctx:
    dry_run = True

    def __init__(self, d):
        self.directory = d


bad = []
with tempfile.TemporaryDirectory() as d:
    d = Path(d)
    (d / "t.html").write_text("<p>\n<a href=x>\n</p>\n")
    res = [R(rule_id="r", locations=[L(file=Path("t.html"), start=LineInfo(2, 1), end=LineInfo(2, 10))], finding=Finding(id="F", rule=Rule(id="r", name="r")))]
    for klass in (RegexTransformerPipeline, SastRegexTransformerPipeline):
        fc = FileContext(d, d / "t.html", [], [], res)
        cs = klass(pattern="href=x", replacement="href=y", change_description="c").apply(Ctx(d), fc, res)
        got = [(c.lineNumber, [f.id for f in c.findings]) for c in cs.changes]
        if got != [(2, ["F"])]:
            bad.append("%s: changes %s, expected [(2, ['F'])]" % (klass.__name__, got))
if bad:
    print("DEFECT:", "; ".join(bad))
    sys.exit(1)
print("ok")
