"""C02 / C08 demonstration (FIXED 0943c93): the unused-variable clean-up that follows sql-parameterization removed
`helper = 'h'` (read only by an inner function) and `global last; last = name` (read by a sibling function): NameError
where the original returned a value.  exit 1 = defect present."""
import sys

from harness import sqlfam

for carry in (3, 4):
    v = sqlfam.check(0, 1, 0, 1, 0, carry)
    if v:
        print("DEFECT:", v.replace("\n", " | ")[:600])
        sys.exit(1)
print("ok")
