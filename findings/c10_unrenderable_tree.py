"""C10 demonstration (FIXED 5888b40): django-model-without-dunder-str on `class A(models.Model): pass` builds a tree
libcst cannot render; the TypeError was raised outside LibcstTransformerPipeline.apply's try blocks and aborted the
whole run instead of failing that file.  exit 1 = defect present."""
import sys

from harness import c10
from vlib import core

core.TWIN = False
if not (c10.fault_unrenderable_tree(False, True, True) and c10.fault_unrenderable_tree(True, False, False)):
    print("DEFECT: an unrenderable tree escapes apply() / the file is not handled as failed")
    sys.exit(1)
print("ok")
