"""C17 public-API demonstration on the real registry: (1) a literal id followed by a wildcard that also matches it
must run once; (2) `*secure` (no trailing wildcard) must not select ids that merely contain 'secure';
(3) `.` in a pattern is a literal dot.  exit 1 = defect present."""
import sys

from codemodder.registry import load_registered_codemods

reg = load_registered_codemods()
bad = []
ids = [c.id for c in reg.match_codemods(["pixee:python/sql-parameterization", "pixee:python/sql*"], None)]
if len(ids) != len(set(ids)):
    bad.append("codemod selected twice: %s" % ids)
ids = [c.id for c in reg.match_codemods(["*secure"], None)]
if ids:
    bad.append("'*secure' selected %s" % ids[:3])
ids = [c.id for c in reg.match_codemods(["pixee.python/sql*"], None)]
if ids:
    bad.append("'pixee.python/sql*' selected %s" % ids)
kept = [c.id for c in reg.match_codemods(None, ["*secure"])]
if not any("secure-random" in i for i in kept):
    bad.append("--codemod-exclude '*secure' removed ids that only contain 'secure'")
if bad:
    print("DEFECT:", "; ".join(bad))
    sys.exit(1)
print("ok")
