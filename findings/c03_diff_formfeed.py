"""C03 public-API demonstration: a source file that contains a form feed (page break, common in
GNU-style Python sources) or a lone carriage return is rewritten by a real codemod; the unified diff in
the CodeTF report, applied to the original content by a '\\n'-only reader (patch / git apply), must give
the content found on disk.  exit 1 = defect present."""
import sys

from vlib.e2e import run_codemodder
from vlib.oracles import diff_matches

bad = []
for name, src in {
    "formfeed": "import os\n\x0c\ndef f(x):\n    return x.startswith('a') or x.startswith('b')\n",
    "lone-cr": "a = 1\rb = 2\ndef f(x):\n    return x.startswith('a') or x.startswith('b')\n",
    "plain": "def f(x):\n    return x.startswith('a') or x.startswith('b')\n",
}.items():
    status, report, after = run_codemodder({"m.py": src}, ["pixee:python/combine-startswith-endswith"])
    css = [cs for r in report["results"] for cs in r["changeset"]]
    if status != 0 or len(css) != 1:
        print("unexpected run outcome for", name, status, len(css))
        sys.exit(2)
    if not diff_matches(src, after["m.py"].decode(), css[0]["diff"]):
        bad.append("%s: patch(diff, before) != after; diff=%r" % (name, css[0]["diff"]))
if bad:
    print("DEFECT:", " | ".join(bad))
    sys.exit(1)
print("ok")
