"""C08 / C02 demonstration (FIXED 0bd657c): sql-parameterization looked through an intermediate variable that other code
still reads and edited its value in place:
    who = name + '!'; cursor.execute("... name = '" + who + "' ..."); return rows, [who for _ in range(1)]
became  who = ""  (string concatenation)  or lost the assignment altogether (f-string / printf: NameError).
Both programs are executed against an in-memory database.  exit 1 = defect present."""
import sys

from harness import sqlfam

for style in (0, 1, 2):
    v = sqlfam.check(style, 1, 0, 1, 0, 2)
    if v:
        print("DEFECT:", v.replace("\n", " | ")[:600])
        sys.exit(1)
print("ok")
