"""C14 demonstration (FIXED fca7f56): a requirements.txt in hash-checking layout (`defusedxml==0.7.1 --hash=sha256:...`,
inline or continued after a backslash): the declared package was not recognised and appended again (without hashes).
Real RequirementsTxtParser + writer round trip.  exit 1 = defect present."""
import sys

from harness import c14
from vlib import core

core.TWIN = False
c14.warmup()
if not (c14.second_run_requirements_txt(2, True) and c14.second_run_requirements_txt(3, True)):
    print("DEFECT: a package declared with --hash options is added again")
    sys.exit(1)
print("ok")
