"""C03 public-API demonstration (KNOWN FINDING): the diff PyprojectWriter reports ends with a phantom empty context
line and its hunk header counts one line more than the file has (`git apply` rejects it).  exit 1 = defect present."""
import sys
import tempfile
from pathlib import Path

from codemodder.dependency import DefusedXML
from codemodder.dependency_management import DependencyManager
from codemodder.project_analysis.file_parsers.package_store import FileType, PackageStore
from vlib.oracles import diff_matches

TEXT = '[project]\nname = "x"\ndependencies = [\n    "requests",\n]\n'
with tempfile.TemporaryDirectory() as d:
    p = Path(d) / "pyproject.toml"
    p.write_text(TEXT)
    store = PackageStore(type=FileType.TOML, file=p, dependencies={"requests"}, py_versions=[])
    cs = DependencyManager(store, Path(d)).write([DefusedXML], False)
    after = p.read_text()
if not diff_matches(TEXT, after, cs.diff):
    print("DEFECT: the reported diff does not apply to the original pyproject.toml: %r" % cs.diff[-40:])
    sys.exit(1)
print("ok")
