"""C14 demonstration (FIXED 2e80570): PyprojectWriter crashed with IndexError when nothing was added (the package is
already a key of the poetry table with a version the parser cannot read) or when two packages went into an inline
[project].dependencies array - the run aborted after source files had been rewritten.  exit 1 = defect present."""
import sys

from harness import c14
from vlib import core

core.TWIN = False
c14.warmup()
if not (c14.pyproject_round_trip(1, False) and c14.pyproject_round_trip(3, True)):
    print("DEFECT: the pyproject.toml writer raises / misbehaves on an already-present poetry key or two packages in an inline array")
    sys.exit(1)
print("ok")
