"""C08/C02/C01 public-API demonstration: pixee:python/invert-boolean-check on membership, identity and chained
comparisons.  The rewritten module must define the same values (and must not raise NameError).
exit 1 = defect present."""
import sys

from vlib.e2e import run_codemodder

SRC = "x, y, a, b, c = 1, [1], 1, 2, 2\nr1 = not x in y\nr2 = not x is None\nr3 = not a == b == c\nr4 = not a < b\n"


def values(code):
    ns = {}
    try:
        exec(compile(code, "m", "exec"), ns)
    except Exception as e:  # noqa
        return "%s: %s" % (type(e).__name__, e)
    return [ns[k] for k in ("r1", "r2", "r3", "r4")]


status, report, after = run_codemodder({"m.py": SRC}, ["pixee:python/invert-boolean-check"])
before_vals, after_vals = values(SRC), values(after["m.py"].decode())
if before_vals != after_vals:
    print("DEFECT: values before %r, after %r; rewritten module:\n%s" % (before_vals, after_vals, after["m.py"].decode()))
    sys.exit(1)
print("ok")
