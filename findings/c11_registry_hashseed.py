"""C11 public-API demonstration: the registry order (= default execution order, order inside a wildcard) must not
depend on Python's hash seed.  Loads the real registry in sub-processes under different PYTHONHASHSEED values.
exit 1 = defect present."""
import os
import subprocess
import sys

outs = set()
for seed in ("0", "1", "2", "3", "4", "5", "6", "7"):
    env = dict(os.environ, PYTHONHASHSEED=seed)
    p = subprocess.run([sys.executable, "-c", "from codemodder.registry import load_registered_codemods as l; print(','.join(l().ids))"], env=env, capture_output=True, text=True)
    if p.returncode != 0:
        print(p.stderr[-500:])
        sys.exit(2)
    outs.add(p.stdout.strip())
if len(outs) != 1:
    firsts = sorted({o.split(",")[0] for o in outs})
    print("DEFECT: %d different registry orders under 8 hash seeds; first ids seen: %s" % (len(outs), firsts))
    sys.exit(1)
print("ok")
