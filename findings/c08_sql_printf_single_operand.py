"""C08 demonstration (FIXED): sql-parameterization on a printf-style query whose format string is made of two
literals and whose right operand is a single name, not a tuple:
    cursor.execute(("SELECT ... name = '%s'" " ORDER BY id") % name)
became  cursor.execute(("SELECT ... name = ?%s" " ORDER BY id"), (name, ))  - sqlite3.OperationalError.
Both programs are executed against an in-memory database.  exit 1 = defect present."""
import sys

from harness import sqlfam

v = sqlfam.check(2, 1, 2, 1, 0)
if v:
    print("DEFECT:", v.replace("\n", " | ")[:600])
    sys.exit(1)
print("ok")
