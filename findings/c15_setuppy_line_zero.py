"""C15 public-API demonstration (KNOWN FINDING): SetupPyWriter reports 'the line before the last install_requires
element' as the change line (pinned by tests/dependency_management/test_setup_py_writer.py).  When that element
is on line 1 the number is 0, Change() rejects it and the exception aborts the run after nothing was written.
exit 1 = defect present."""
import sys
import tempfile
from pathlib import Path

from codemodder.dependency import DefusedXML
from codemodder.dependency_management import DependencyManager
from codemodder.project_analysis.file_parsers.package_store import FileType, PackageStore

with tempfile.TemporaryDirectory() as d:
    d = Path(d)
    p = d / "setup.py"
    p.write_text('import setuptools; setuptools.setup(name="x", install_requires=["requests"])\n')
    store = PackageStore(type=FileType.SETUP_PY, file=p, dependencies={"requests"}, py_versions=[])
    try:
        cs = DependencyManager(store, d).write([DefusedXML], False)
    except Exception as e:  # noqa
        print("DEFECT: setup.py with install_requires on line 1: %s: %s" % (type(e).__name__, str(e).splitlines()[0]))
        sys.exit(1)
if cs is not None and not all(c.lineNumber >= 1 for c in cs.changes):
    sys.exit(1)
print("ok")
