"""C08 demonstration (FIXED): lazy-logging turned `logging.info('pct ' + x + ' 100%')` into
`logging.info("pct %s 100%", x)`: the literal `%` of a later piece became a format directive, logging fails to format
the record (ValueError inside Handler.emit) and the message is lost.  Both programs are executed with a capturing
handler.  exit 1 = defect present."""
import sys

from harness import refsast

v = refsast.check_log(6, 0, 0, 0)
if v:
    print("DEFECT:", v.replace("\n", " | ")[:600])
    sys.exit(1)
print("ok")
