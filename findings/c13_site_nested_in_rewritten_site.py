"""C13 demonstration (KNOWN FINDING): a site nested in the arguments of ANOTHER REWRITTEN site of the same codemod
loses its edit while its change entry is kept: the outer rewrite is assembled from the ORIGINAL node's children
(`replace_args(original_node, ..)`, `cst.Set(elements=<original elements>)` ...).
    r = math.isclose(math.isclose(a, 0), 0)  ->  r = math.isclose(math.isclose(a, 0), 0, abs_tol=1e-09)
with two change entries for the line.  exit 1 = defect present."""
import sys
from pathlib import Path

import libcst as cst

from codemodder.file_context import FileContext
from harness import c13w

src = "import math\na = 1.0\nr = math.isclose(math.isclose(a, 0), 0)\n"
fc = FileContext(Path("/d"), Path("/d/m.py"), [], [], None)
tree = cst.parse_module(src)
for t in c13w._cm("fix-math-isclose").transformer.transformers:
    tree = t.transform(tree, None, fc)
n = len(fc.codemod_changes)
if n == 2 and tree.code.count("abs_tol") == 1:
    print("DEFECT: 2 change entries, 1 edit:", tree.code.split("\n")[2])
    sys.exit(1)
print("ok")
