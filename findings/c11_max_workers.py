"""C11 public-API demonstration: a codemod applied with --max-workers 2 must not create a thread pool with more
than 2 workers.  exit 1 = defect present."""
import sys
import tempfile
from concurrent.futures import ThreadPoolExecutor
from pathlib import Path

import codemodder.codemods.base_codemod as bc
from codemodder.context import CodemodExecutionContext
from codemodder.registry import load_registered_codemods

seen = []


class Recording(ThreadPoolExecutor):
    def __init__(self, *a, **k):
        super().__init__(*a, **k)
        seen.append(self._max_workers)


bc.ThreadPoolExecutor = Recording
with tempfile.TemporaryDirectory() as d:
    d = Path(d)
    for i in range(4):
        (d / ("m%d.py" % i)).write_text("def f(x):\n    return x.startswith('a') or x.startswith('b')\n")
    reg = load_registered_codemods()
    ctx = CodemodExecutionContext(d, True, False, reg, None, None, [], [], {}, 2)
    (cm,) = reg.match_codemods(["pixee:python/combine-startswith-endswith"], None)
    cm.apply(ctx)
if not seen or max(seen) > 2:
    print("DEFECT: thread pool sizes %r with --max-workers 2" % seen)
    sys.exit(1)
print("ok")
