"""C13 demonstration (FIXED d376148): order-imports, two top-level import blocks, the first one excluded by a
`path:line` pattern: the second block is reordered but the change entry named line 1 - an excluded line.
exit 1 = defect present."""
import sys

from harness import c13w

out, lines = c13w._run("order-imports", [1], [])
v = c13w._verdict("order-imports", 1, False, out, lines, None)
if v:
    print("DEFECT:", v)
    sys.exit(1)
print("ok")
