"""C19 public-API demonstration: an XML document with a CDATA section goes through the real XML pipeline
(real expat); the CDATA content must be unchanged.  exit 1 = defect present."""
import sys
import tempfile
from pathlib import Path

from codemodder.codemods.xml_transformer import ElementAttributeXMLTransformer, XMLTransformerPipeline
from codemodder.file_context import FileContext


class Ctx:
    dry_run = False

    def __init__(self, d):
        self.directory = d


class T(ElementAttributeXMLTransformer):
    def __init__(self, out, file_context, results=None, **kw):
        super().__init__(out, file_context, name_attributes_map={"item": {"flag": "yes"}}, results=results)


with tempfile.TemporaryDirectory() as d:
    d = Path(d)
    p = d / "c.xml"
    p.write_text('<root><item flag="no"/><s><![CDATA[a<b & c]]></s></root>\n')
    cs = XMLTransformerPipeline(T).apply(Ctx(d), FileContext(d, p, [], [], None), None)
    out = p.read_text()
if cs is None or "<![CDATA[a<b & c]]>" not in out:
    print("DEFECT: CDATA content altered:", out)
    sys.exit(1)
print("ok")
