"""C14 demonstrations (FIXED: 8818069 single-quoted setup.py requirement strings, 21c454d `setuptools.setup(..)` as an
attribute call, 04a8cff setup.cfg inline install_requires followed by an entry ending with the same text): an
already-declared package was added again / the requirement landed outside install_requires.
usage: c14_declared_not_recognised.py <quotes|attr|cfg>      exit 1 = defect present."""
import sys

from harness import c14

c14.warmup()
which = sys.argv[1] if len(sys.argv) > 1 else "quotes"
from vlib import core

core.TWIN = False
if which == "quotes":
    ok = c14.second_run_setup_py(True, False, 1) and c14.second_run_setup_py(True, False, 2)
elif which == "attr":
    ok = c14.second_run_setup_py(False, True, 0) and c14.second_run_setup_py(False, True, 1)
else:
    ok = c14.setup_cfg(0, [0], True, True, False) and c14.setup_cfg(0, [0, 1], True, True, True)
if not ok:
    print("DEFECT: %s: an already-declared package is added again / the requirement lands outside install_requires" % which)
    sys.exit(1)
print("ok")
