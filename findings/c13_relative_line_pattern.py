"""C13 public-API demonstration: `--path-exclude pkg/mod.py:2` (path relative to the target, like any other
pattern) must keep the construct on line 2 untouched while line 3 is still fixed.  exit 1 = defect present."""
import sys

from vlib.e2e import run_codemodder

SRC = "def f(x):\n    a = x.startswith('a') or x.startswith('b')\n    b = x.endswith('a') or x.endswith('b')\n    return a, b\n"
status, report, after = run_codemodder({"pkg/mod.py": SRC, "pkg/__init__.py": ""}, ["pixee:python/combine-startswith-endswith"], ["--path-exclude", "pkg/mod.py:2"])
out = after["pkg/mod.py"].decode().splitlines()
lines = sorted(c["lineNumber"] for r in report["results"] for cs in r["changeset"] for c in cs["changes"])
if out[1] != SRC.splitlines()[1] or "endswith(('a', 'b'))" not in out[2] or lines != [3]:
    print("DEFECT: excluded line 2 rewritten or line 3 not fixed; change lines", lines, "| file:", out)
    sys.exit(1)
print("ok")
