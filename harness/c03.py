"""C03 — the diff in the report is exactly the change made on disk.

D1  difflines_to_str           symbolic diff-line lists
D2  create_diff(_from_tree)    symbolic before/after texts over an alphabet with every line-boundary
                               character Python's str.splitlines knows; oracle: '\\n'-only patcher
D3  pipeline skeletons         symbolic outcome flags; ChangeSet <=> write; written bytes == patch(diff)
D4  composition                two codemods in sequence over the same file
"""
from typing import List

from codemodder.diff import create_diff, create_diff_from_tree, difflines_to_str
from harness import skel
from vlib.core import fin, tier
from vlib.main import Xh
from vlib.oracles import apply_unified_diff, diff_matches, same_up_to_final_newline, split_nl

ALPHA = "a\n\r\x0c"  # ordinary char, LF, CR, FF (FF stands for the VT/FS/GS/RS/NEL/LS/PS family of str.splitlines)
LEN = tier(2, 3)
NL = "\n"


def d1_difflines(lines: List[str]) -> bool:
    """difflines_to_str: a '\\n'-only reader recovers exactly the diff lines it was given (every line
    difflib.unified_diff yields starts with a tag character, hence is non-empty).
    pre: len(lines) <= 3 and all(1 <= len(l) <= 3 and l[0] != NL and NL not in l[:-1] for l in lines)
    post: _
    """
    text = difflines_to_str(lines)
    exp = [l[:-1] if l.endswith("\n") else l for l in lines]
    return fin(split_nl(text) == exp)


class _Tree:
    def __init__(self, code):
        self.code = code


def _ch(i: int) -> str:
    if i % 4 == 0:
        return "a"
    if i % 4 == 1:
        return "\n"
    if i % 4 == 2:
        return "\r"
    return "\x0c"


def _text(n: int, c0: int, c1: int, c2: int) -> str:
    """A text of n <= 3 characters over ALPHA, chosen by symbolic selectors (explicit forks: the text is
    concrete on every path, which is what difflib's line hashing would force anyway)."""
    out = ""
    if n >= 1:
        out += _ch(c0)
    if n >= 2:
        out += _ch(c1)
    if n >= 3:
        out += _ch(c2)
    return out


def d2_tree_diff(nb: int, b0: int, b1: int, b2: int, na: int, a0: int, a1: int, a2: int) -> bool:
    """create_diff_from_tree: applying the reported diff to `before` reproduces `after`, for all texts of
    <= LEN characters over {a, LF, CR, FF}.
    pre: 0 <= nb <= LEN and 0 <= na <= LEN
    post: _
    """
    before, after = _text(nb, b0, b1, b2), _text(na, a0, a1, a2)
    diff = create_diff_from_tree(_Tree(before), _Tree(after))
    if before == after:
        return fin(diff == "")
    return fin(diff != "" and diff_matches(before, after, diff))


def d2_regex_pipeline(nb: int, b0: int, b1: int, b2: int, dry_run: bool) -> bool:
    """RegexTransformerPipeline.apply on a file whose whole content is symbolic (<= LEN chars over
    {a, LF, CR, FF}); the pattern rewrites every 'a' to 'bb': the reported diff applied to the original
    content gives the content the pipeline wrote (or would write, dry run).
    pre: 0 <= nb <= LEN
    post: _
    """
    from pathlib import Path

    from codemodder.codemods.regex_transformer import RegexTransformerPipeline
    from codemodder.file_context import FileContext
    from vlib.stubs import Ctx, FakePath

    before = _text(nb, b0, b1, b2)
    fp = FakePath(before.encode(), rel="f.txt")
    fc = FileContext(Path("/d"), fp, [], [], None)
    cs = RegexTransformerPipeline(pattern="a", replacement="bb", change_description="d").apply(Ctx(dry_run), fc, None)
    expected_after = before.replace("a", "bb")
    if "a" not in before:
        return fin(cs is None and fp.writes == [])
    if cs is None:
        return False
    if dry_run:
        return fin(fp.writes == [] and diff_matches(before, expected_after, cs.diff))
    return fin(fp.writes == [expected_after.encode()] and diff_matches(before, expected_after, cs.diff))


def _check_obs(before: bytes, o, dry_run: bool) -> bool:
    """ChangeSet <=> bytes written (real run); written bytes == patch(diff, before); no ChangeSet => untouched."""
    if o.other:
        return False
    if o.cs is None:
        return o.writes == [] and o.final == before
    path, diff, changes = o.cs
    if dry_run:
        if o.writes:
            return False
        return diff != ""
    if len(o.writes) != 1 or o.writes[0] != o.final:
        return False
    if o.final == before:
        return False  # every changeset names a file that did change
    # compare at the byte level: latin-1 maps bytes to code points one to one, so text outside the hunks
    # must be byte-identical whatever encoding the file declares
    try:
        return diff_matches(before.decode("utf-8"), o.final.decode("utf-8"), diff)
    except UnicodeDecodeError:
        return diff_matches(before.decode("latin-1"), o.final.decode("latin-1"), diff)


def d3_libcst(kind: int, dry_run: bool, r1: bool, c1: bool, a1: bool, r2: bool, c2: bool, a2: bool) -> bool:
    """LibcstTransformerPipeline.apply under every combination of outcome flags.
    pre: 0 <= kind < 5
    post: _
    """
    fp, fc, o = skel.run_libcst(kind, dry_run, (r1, c1, a1), (r2, c2, a2), 1)
    before = skel.BEFORE[kind]
    return fin(o.exc is None and _check_obs(before, o, dry_run))


def d3_regex(kind: int, dry_run: bool, matches: bool, sast: bool, n_findings: int, line: int) -> bool:
    """Regex / SastRegex pipeline: ChangeSet <=> write, diff faithful (unreadable files are C10's subject).
    pre: kind == 0 and 0 <= n_findings <= 1 and 1 <= line <= 3
    post: _
    """
    fp, fc, o = skel.run_regex(kind, dry_run, matches, sast, n_findings, line)
    return fin(o.exc is None and _check_obs(skel.SRC_TEXT.encode(), o, dry_run))


def d3_xml(dry_run: bool, target: bool, n_findings: int, line: int, results_none: bool) -> bool:
    """XMLTransformerPipeline.apply (expat replaced by a SAX event driver): ChangeSet <=> write, diff faithful.
    pre: 0 <= n_findings <= 1 and 1 <= line <= 3
    post: _
    """
    fp, fc, o = skel.run_xml(False, False, dry_run, target, n_findings, line, results_none)
    return fin(o.exc is None and _check_obs(skel.XML_TEXT.encode(), o, dry_run))


def d4_compose(c1: bool, a1: bool, c2: bool, a2: bool, swap: bool) -> bool:
    """Two codemods touch the same file in one real run: their diffs compose, in execution order, from the
    original content to the content on disk.
    post: _
    """
    import libcst as cst

    from vlib.stubs import FakePath

    fp = FakePath(skel.SRC_TEXT.encode())
    t_first = (False, c1, a1)
    t_second = (False, c2, a2)
    # codemod 1 rewrites with NEW (1 transformer), codemod 2 appends a line to whatever is on disk
    from codemodder.codemods.libcst_transformer import LibcstTransformerPipeline
    from codemodder.file_context import FileContext
    from pathlib import Path
    from vlib.stubs import Ctx

    class Append:
        @classmethod
        def transform(cls, tree, results, file_context):
            if c2:
                from codemodder.codetf import Change

                file_context.codemod_changes.append(Change(lineNumber=1, description="d"))
            return cst.parse_module(tree.code + "z = 0\n") if a2 else tree

    pipes = [LibcstTransformerPipeline(skel.mk_transformer(*t_first)), LibcstTransformerPipeline(Append)]
    if swap:
        pipes.reverse()
    text = skel.SRC_TEXT
    for p in pipes:
        fc = FileContext(Path("/d"), fp, [], [], None)
        cs = p.apply(Ctx(False), fc, None)
        if cs is not None:
            try:
                text = apply_unified_diff(text, cs.diff)
            except Exception:  # noqa  (PatchError)
                return False
    return fin(same_up_to_final_newline(text, fp.content.decode()))


def d3_writers(kind: int, variant: int, two: bool) -> bool:
    """The four manifest writers (real run): the diff in the ChangeSet, applied to the manifest as it was, gives the
    manifest as written.
    pre: 0 <= kind < 4 and 0 <= variant < 2
    post: _
    """
    from harness.c04 import _run_writer

    from vlib.core import known_active

    fs, obs, exc, text, path = _run_writer(kind, variant, False, two, False)
    if exc is not None or obs is None:
        return False
    diff = obs[1]
    if kind == 2 and known_active("C03/pyproject-diff-phantom-trailing-line") and diff.endswith("\n "):
        # known finding: PyprojectWriter diffs text.split("\n") pieces, so the empty string after the final
        # newline shows up as one extra, empty context line at the end of the last hunk
        diff = _without_phantom_line(diff)
    return fin(len(fs.writes) == 1 and diff_matches(text, fs.files[path], diff))


def d5_writers_compose(kind: int, variant: int) -> bool:
    """Two dependency updates of ONE run against the same manifest (two dependency-adding codemods, different
    packages), for each of the four writers: the two reported diffs, applied in order to the manifest as it was before
    the run, give the manifest as it is on disk afterwards - which carries both requirements.
    pre: 0 <= kind < 4 and 0 <= variant < 2
    post: _
    """
    from harness.c04 import _run_writer_twice

    from vlib.core import known_active

    fs, diffs, exc, text, path = _run_writer_twice(kind, variant)
    if exc is not None or len(diffs) != 2 or diffs[0] is None or diffs[1] is None:
        return False
    cur = text
    for d in diffs:
        if kind == 2 and known_active("C03/pyproject-diff-phantom-trailing-line") and d.endswith("\n "):
            d = _without_phantom_line(d)
        try:
            cur = apply_unified_diff(cur, d)
        except Exception:  # noqa  (PatchError: the diff does not apply to what the previous update left)
            return False
    final = fs.files[path]
    return fin(same_up_to_final_newline(cur, final) and "defusedxml" in final and "security" in final)


def _without_phantom_line(diff: str) -> str:
    """Drop the trailing ' ' context line and shrink the last hunk header's two line counts by one."""
    lines = diff[:-2].split("\n")
    for i in range(len(lines) - 1, -1, -1):
        if lines[i].startswith("@@"):
            parts = lines[i].split(" ")

            def dec(tok):
                a, b = tok[1:].split(",") if "," in tok else (tok[1:], "1")
                return "%s%s,%d" % (tok[0], a, int(b) - 1)

            lines[i] = " ".join([parts[0], dec(parts[1]), dec(parts[2])] + parts[3:])
            break
    return "\n".join(lines) + "\n"


def planted_wrong_tree(dry_run: bool, c1: bool, a1: bool) -> bool:
    """Self-test: a pipeline that diffs against one tree but writes another must be refuted.
    post: _
    """
    import codemodder.codemods.libcst_transformer as lt

    orig = lt.update_code
    lt.update_code = lambda path, code: orig(path, code + "# extra\n")
    try:
        fp, fc, o = skel.run_libcst(0, dry_run, (False, c1, a1), (False, False, False), 0)
    finally:
        lt.update_code = orig
    return _check_obs(skel.SRC_TEXT.encode(), o, dry_run)


def validate_oracle(tier_name):
    """Model validation (concrete): the reference patcher agrees with the real create_diff on every pair of
    '\\n'-only documents of <= 3 lines over {a, b, empty} with and without a final newline."""
    import itertools

    lines = ["a\n", "b\n", "\n"]
    docs = []
    for k in range(0, 4):
        for combo in itertools.product(lines, repeat=k):
            docs.append("".join(combo))
            docs.append("".join(combo) + "c")
    n = bad = 0
    first = None
    for x in docs:
        for y in docs:
            d = create_diff(x.splitlines(True), y.splitlines(True))
            n += 1
            if not diff_matches(x, y, d):
                bad += 1
                first = first or (x, y, d)
    return [
        {
            "name": "oracle:apply_unified_diff-vs-real-create_diff",
            "engine": "model-validation",
            "verdict": "discharged" if bad == 0 else "harness_error",
            "evaluations": n,
            "distinct_nontrivial": 0,
            "detail": "reference patcher disagreed with create_diff on %r" % (first,) if bad else "",
            "sample": {"pairs": n, "disagreements": bad},
        }
    ]


def warmup():
    skel.warm()
    d1_difflines(["a\n", "b"])
    d2_tree_diff(2, 0, 1, 0, 3, 0, 1, 0)
    d2_regex_pipeline(3, 0, 1, 0, False)
    d2_regex_pipeline(3, 0, 1, 0, True)
    d4_compose(True, True, True, True, False)
    d4_compose(True, True, True, True, True)
    d3_xml(False, True, 1, 2, False)
    for _k in range(4):
        d3_writers(_k, 0, True)
        d5_writers_compose(_k, 1)


SPEC = {
    "property": "C03",
    "level": "model_checking",
    "files": [
        "src/codemodder/diff.py",
        "src/codemodder/codemods/libcst_transformer.py",
        "src/codemodder/codemods/regex_transformer.py",
        "src/codemodder/codemods/xml_transformer.py",
        "src/codemodder/file_context.py",
    ],
    "functions": [
        "codemodder.diff.difflines_to_str",
        "codemodder.diff.create_diff",
        "codemodder.diff.create_diff_from_tree",
        "codemodder.codemods.libcst_transformer.LibcstTransformerPipeline.apply / update_code",
        "codemodder.codemods.regex_transformer.RegexTransformerPipeline.apply/_apply, SastRegexTransformerPipeline._apply",
        "codemodder.codemods.xml_transformer.XMLTransformerPipeline.apply, ElementAttributeXMLTransformer.startElement, XMLTransformer.*",
        "RequirementsTxtWriter / SetupCfgWriter / PyprojectWriter / SetupPyWriter .add_to_file (diff vs written manifest)",
    ],
    "bounds": {
        "quick": "before/after texts <= 2 chars over {a, LF, CR, FF}; <= 3 diff lines of <= 3 chars; pipeline skeletons: all combinations of outcome flags (content kind 4, dry-run, raises/changes/alters of 2 chained transformers), concrete 3-line file",
        "thorough": "before/after texts <= 3 chars; otherwise as quick",
    },
    "assumptions": [
        "a unified-diff consumer splits lines on LF only (patch, git apply); FF stands for the whole family of extra str.splitlines boundaries",
        "difflib.unified_diff is run for real (it hashes lines, so symbolic texts are realised per path: the finite alphabet makes the path tree finite)",
        "libcst's Module.code is lossless (trusted)",
        "UTF-8 only, no BOM",
    ],
    "stubs": ["file (FakePath: records writes/unlink/rename)", "transformers (symbolic raises/changes/alters)", "logger", "expat parser (SAX event driver for a concrete document)", "TemporaryFile (pure-Python text sink)"],
    "outside": ["manifest layouts other than the 2 concrete ones per kind", "encodings other than UTF-8", "texts longer than the bound"],
    "drivers": [validate_oracle],
    "xh": [
        Xh("d1_difflines", 120, 400),
        Xh("d2_tree_diff", 200, 1500),
        Xh("d2_regex_pipeline", 200, 900),
        Xh("d3_libcst", 150, 400),
        Xh("d3_regex", 120, 300),
        Xh("d3_xml", 120, 300),
        Xh("d4_compose", 120, 300),
        Xh("d3_writers", 150, 300),
        Xh("d5_writers_compose", 150, 300),
        Xh("planted_wrong_tree", 60, 120, twin=False, expect="refuted"),
    ],
}
