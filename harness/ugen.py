"""Shared E1 kernel for use-generator (used by C01: result parses; C08: result evaluates to the same value)."""
import ast

import libcst as cst

from core_codemods.use_generator import UseGenerator

FUNCS = ["any", "all", "sum", "min", "max"]


class Stub:
    change_description = "d"

    def __init__(self):
        self.changes = 0

    def filter_by_path_includes_or_excludes(self, pos):
        return True

    def node_position(self, node):
        return None

    def is_builtin_function(self, node):
        return True

    def add_change(self, node, desc):
        self.changes += 1


def _fn(i: int) -> str:
    k = 0
    while k < 4:
        if i % 5 == k:
            return FUNCS[k]
        k += 1
    return FUNCS[4]


def build_call(fsel: int, extra: int, trailing_comma: bool, multiline: bool):
    """`f([x for x in ys] , <extra>)`: extra 0 none, 1 a second positional (sum's start / a second iterable makes no
    sense for any/all, Python raises TypeError there: both programs must then raise alike), 2 keyword `key=neg`
    (min/max), 3 keyword `default=7` (min/max)."""
    fn = _fn(fsel)
    comp = cst.parse_expression("[x for x in ys]")
    comma = cst.MaybeSentinel.DEFAULT
    if trailing_comma or extra:
        ws = cst.ParenthesizedWhitespace(first_line=cst.TrailingWhitespace(newline=cst.Newline()), indent=True, last_line=cst.SimpleWhitespace("    ")) if multiline else cst.SimpleWhitespace(" " if extra else "")
        comma = cst.Comma(whitespace_after=ws)
    args = [cst.Arg(value=comp, comma=comma)]
    if extra == 1:
        args.append(cst.Arg(value=cst.Integer("10")))
    elif extra == 2:
        args.append(cst.Arg(keyword=cst.Name("key"), value=cst.Name("neg"), equal=cst.AssignEqual(cst.SimpleWhitespace(""), cst.SimpleWhitespace(""))))
    elif extra == 3:
        args.append(cst.Arg(keyword=cst.Name("default"), value=cst.Integer("7"), equal=cst.AssignEqual(cst.SimpleWhitespace(""), cst.SimpleWhitespace(""))))
    return cst.Call(func=cst.Name(fn), args=args)


def rewrite(call):
    stub = Stub()
    new = UseGenerator.leave_Call(stub, call, call)
    return new, stub.changes


def code(node) -> str:
    return cst.Module([]).code_for_node(node)


def observe(expr_code: str, empty: bool):
    env = {"ys": [] if empty else [3, 1, 2], "neg": lambda v: -v}
    try:
        return ("val", eval(compile(expr_code, "<e>", "eval"), env))
    except SyntaxError:
        return ("syntax-error",)
    except Exception as e:  # noqa
        return ("exc", type(e).__name__)
