"""sql-parameterization family (C08): selector-built sqlite3 programs through the codemod's complete real pipeline;
oracle = C08's statement for this codemod: for benign parameter values the rewritten program returns the same rows
(same output, same raised exception type) as the original.  Both programs are executed against an in-memory database.
Where the codemod declines to rewrite (no change), there is nothing to compare."""
import contextlib
import io

from crosshair.tracers import NoTracing

_REG = None


def _reg():
    global _REG
    if _REG is None:
        from codemodder.registry import load_registered_codemods

        _REG = {c.id: c for c in load_registered_codemods().codemods}
    return _REG


PRELUDE = (
    "import sqlite3\n\n"
    "connection = sqlite3.connect(':memory:')\n"
    "cursor = connection.cursor()\n"
    "cursor.execute('CREATE TABLE users (id INTEGER, name TEXT, phone TEXT)')\n"
    "cursor.executemany('INSERT INTO users VALUES (?, ?, ?)', [(1, 'alice', '555-0001'), (2, 'bob', '555-0002'), (3, 'carol', '555-0003'), (4, 'alice', '555-0004'), (5, 'dave', 'dave')])\n"
    "def get(i):\n    return VALS[i]\n"
)
VALUES = [("alice", "555-0001", "bob"), ("alice", "555-0004", "alice"), ("dave", "dave", "carol"), ("nobody", "", "")]
#  the pieces of the query between the parameters (the parameters sit inside the quotes)
HEAD, MID, MID2, TAIL = "SELECT id FROM users WHERE name = '", "' AND phone = '", "' AND name <> '", "' ORDER BY id"


def sel(pool, i):
    k = 0
    while k < len(pool) - 1:
        if i % len(pool) == k:
            return pool[k]
        k += 1
    return pool[len(pool) - 1]


def query_expr(style: int, nparams: int, split: int, first: str = "name"):
    """The query expression.  style: 0 `+` concatenation, 1 f-string, 2 printf `%`, 3 str.format, 4 one operand per line inside parentheses;
    split: 0 every literal piece in one literal where the style allows, 1 adjacent literals (implicit concatenation),
    2 literals joined with an explicit `+`."""
    names = [first, "phone", "other"][:nparams]
    seps = [HEAD, MID, MID2][:nparams] + [TAIL]
    st = style % 5
    if st == 4:
        # formatter style: one operand per line inside parentheses, with a non-injectable piece in the middle; with
        # split == 1 the closing quote is a literal of its own, which the rewrite empties
        lines_ = ['"SELECT id FROM users WHERE id > "', "+ str(0)", '+ " AND name = \'"', "+ " + names[0]]
        for i, n in enumerate(names[1:], start=1):
            lines_ += ['+ "%s"' % seps[i], "+ " + n]
        lines_ += ['+ "\'"', '+ " ORDER BY id"'] if split % 3 != 1 else ['+ "\'"']
        return "(\n" + "".join("        %s\n" % l for l in lines_) + "    )"
    if st == 0:
        parts = []
        for i, n in enumerate(names):
            parts += ['"%s"' % seps[i], n]
        parts.append('"%s"' % seps[-1])
        if split % 3 == 1:
            parts[-1] = '"%s" "%s"' % (seps[-1][:4], seps[-1][4:])
        return " + ".join(parts)
    if st == 1:
        pieces = [seps[i] + "{" + n + "}" for i, n in enumerate(names)] + [seps[-1]]
        if split % 3 == 0:
            return 'f"%s"' % "".join(pieces)
        if split % 3 == 1:
            return " ".join('f"%s"' % p for p in pieces)
        return " + ".join('f"%s"' % p for p in pieces)
    ph = "%s" if st == 2 else "{}"
    pieces = [seps[i] + ph for i in range(nparams)] + [seps[-1]]
    if split % 3 == 0:
        fmt = '"%s"' % "".join(pieces)
    elif split % 3 == 1:
        fmt = "(" + " ".join('"%s"' % p for p in pieces) + ")"
    else:
        fmt = "(" + " + ".join('"%s"' % p for p in pieces) + ")"
    if st == 2:
        return "%s %% (%s)" % (fmt, ", ".join(names) + ("," if nparams == 1 else "")) if nparams > 1 or split % 2 else "%s %% %s" % (fmt, names[0])
    return "%s.format(%s)" % (fmt, ", ".join(names))


def build(style: int, nparams: int, split: int, scope: int, var: int, carry: int = 0):
    """scope: 0 module level, 1 inside a function; var: 0 the expression is the argument of execute, 1 it is first
    assigned to a variable.  The parameter values are read from VALS, which the oracle binds to each benign value
    tuple in turn (the rewrite does not depend on them)."""
    q = query_expr(style, nparams, split, "who" if carry % 5 in (1, 2) else "name")
    body = []
    tail_expr = "rows"
    extra_module = ""
    if carry % 5 == 3:
        # an unrelated local that only an INNER FUNCTION reads (the clean-up pass walks every function of the file)
        body += ["helper = 'h'", "def inner():", "    return helper"]
        tail_expr = "(rows, inner())"
        scope = 1
    elif carry % 5 == 4:
        # an assignment to a GLOBAL that a sibling function reads
        body += ["global last", "last = name"]
        extra_module = "def later():\n    return last\n"
        tail_expr = "rows"
        scope = 1
    elif carry % 5:
        # the injected value travels through an intermediate variable that is READ AGAIN after the query
        body.append("who = name" if carry % 5 == 1 else "who = name + '!'")
        tail_expr = "(rows, who)" if carry % 5 == 1 else "(rows, [who for _ in range(1)])"
    if var % 2 == 1:
        body += ["q = " + q, "cursor.execute(q)"]
    else:
        body += ["cursor.execute(%s)" % q]
    body += ["rows = cursor.fetchall()"]
    bind = ["name = get(0)", "phone = get(1)", "other = get(2)"]
    if scope % 2 == 1:
        src = PRELUDE + "\ndef lookup(cursor, name, phone, other):\n" + "".join("    %s\n" % l for l in body) + "    return %s\n\n" % tail_expr + "\n".join(bind) + "\n" + extra_module + "print(lookup(cursor, name, phone, other)" + (", later())\n" if extra_module else ")\n")
    else:
        src = PRELUDE + "\n".join(bind) + "\n" + "\n".join(body) + "\nprint(%s)\n" % tail_expr
    return src


def observe(code, vals):
    out = io.StringIO()
    try:
        with contextlib.redirect_stdout(out):
            exec(compile(code, "m.py", "exec"), {"__name__": "__main__", "VALS": vals})
        return ("ok", out.getvalue())
    except BaseException as e:  # noqa
        return (type(e).__name__, out.getvalue())


def check(style, nparams, split, scope, var, carry=0):
    from tv import driver

    src = build(style, nparams, split, scope, var, carry)
    with NoTracing():
        out, _n = driver.run_pipeline(_reg()["pixee:python/sql-parameterization"], src)
        if out == src:
            return None
        for vals in VALUES:
            a, b = observe(src, vals), observe(out, vals)
            if a != b:
                return "sql-parameterization changed the rows for %r: %r -> %r\n--- before\n%s--- after\n%s" % (vals, a, b, src[len(PRELUDE):], out[len(PRELUDE):])
    return None
