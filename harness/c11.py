"""C11 — results do not depend on scheduling, worker count, hash seed or enumeration order.

Orders and schedules are symbolic permutations.  Two-run hyper-properties inside one harness body: the real code is
run under two arbitrary orders and must produce equal observable results.
"""
from pathlib import Path
from typing import List

import libcst as cst
from crosshair.tracers import NoTracing

import codemodder.codemods.base_codemod as bc
import codemodder.context as ctxmod
import codemodder.project_analysis.file_parsers.base_parser as bp
import codemodder.registry as reg
from codemodder.code_directory import match_files
from codemodder.codemods.base_codemod import FindAndFixCodemod, Metadata, ReviewGuidance
from codemodder.codemods.libcst_transformer import LibcstTransformerPipeline
from codemodder.codetf import Change
from codemodder.context import CodemodExecutionContext
from codemodder.project_analysis.file_parsers.package_store import FileType, PackageStore
from codemodder.registry import CodemodCollection
from harness import skel
from vlib.core import NoLog, fin
from vlib.main import Xh
from vlib.stubs import FakePath

bc.logger = NoLog()
ctxmod.logger = NoLog()
bp.logger = NoLog()
reg.logger = NoLog()

PERMS = [[0, 1, 2], [0, 2, 1], [1, 0, 2], [1, 2, 0], [2, 0, 1], [2, 1, 0]]


def perm(k: int) -> List[int]:
    i = 0
    while i < 5:
        if k % 6 == i:
            return PERMS[i]
        i += 1
    return PERMS[5]


REC = {}


class SchedExecutor:
    """ThreadPoolExecutor stand-in.  Tasks complete in an arbitrary order (ORDER, a permutation of submission
    indices).  `map` yields results in submission order (the documented contract of Executor.map); `submit`
    returns real Future objects that are resolved, in ORDER, when the pool is shut down / left or when
    `as_completed` / `wait` (patched in base_codemod's namespace) ask for them - so code that collects results in
    completion order really sees the arbitrary order.  Constructor arguments are recorded."""

    ORDER: List[int] = [0, 1, 2]
    current = None

    def __init__(self, *a, **k):
        REC["ctor"] = (a, k)
        self.pending = []
        SchedExecutor.current = self

    def __enter__(self):
        return self

    def __exit__(self, *a):
        self.run_pending()
        return False

    def shutdown(self, wait=True, **k):
        self.run_pending()

    def run_pending(self):
        done = []
        order = [j for j in SchedExecutor.ORDER if j < len(self.pending)] + [j for j in range(len(self.pending)) if j not in SchedExecutor.ORDER]
        for j in order:
            fut, fn, a, k = self.pending[j]
            if not fut.done():
                try:
                    fut.set_result(fn(*a, **k))
                except Exception as e:  # noqa
                    fut.set_exception(e)
                done.append(fut)
        return done

    def submit(self, fn, *a, **k):
        from concurrent.futures import Future

        fut = Future()
        self.pending.append((fut, fn, a, k))
        return fut

    def map(self, fn, items):
        items = list(items)
        results = [None] * len(items)
        for i in [j for j in SchedExecutor.ORDER if j < len(items)]:
            results[i] = fn(items[i])
        return iter(results)


def sched_as_completed(futures, timeout=None):
    """concurrent.futures.as_completed for SchedExecutor futures: completion order = ORDER."""
    futures = list(futures)
    ex = SchedExecutor.current
    done_now = ex.run_pending() if ex is not None else []
    seen = []
    for f in done_now:
        if f in futures:
            seen.append(f)
    for f in futures:
        if f not in seen:
            seen.append(f)
    return iter(seen)


def sched_wait(futures, timeout=None, return_when=None):
    futures = list(futures)
    if SchedExecutor.current is not None:
        SchedExecutor.current.run_pending()
    return set(futures), set()


def install_executor(module):
    module.ThreadPoolExecutor = SchedExecutor
    module.as_completed = sched_as_completed
    module.wait = sched_wait


class _Codemod(FindAndFixCodemod):
    @property
    def origin(self):
        return "verif"

    @property
    def docs_module_path(self):
        return "verif"


class T:
    @classmethod
    def transform(cls, tree, results, file_context):
        file_context.codemod_changes.append(Change(lineNumber=2, description="d"))
        return cst.parse_module(tree.code.replace("a = 1", "a = 2"))


def _run_sched(n: int, w: int, order: List[int], bad=(False, False, False)):
    files = [FakePath((b"def (:\n" if bad[i] else skel.SRC_TEXT.encode() + b"# f%d\n" % i), rel="f%d.py" % i) for i in range(n)]
    with NoTracing():
        ctx = CodemodExecutionContext(Path("/d"), False, False, None, None, None, [], [], {}, w)
    ctx.__dict__["find_and_fix_paths"] = list(files)
    cm = _Codemod(metadata=Metadata(name="stub", summary="s", review_guidance=ReviewGuidance.MERGE_WITHOUT_REVIEW, description="d"), transformer=LibcstTransformerPipeline(T))
    install_executor(bc)
    SchedExecutor.ORDER = order
    REC.clear()
    cm.apply(ctx)
    a, kw = REC["ctor"]
    pool = kw.get("max_workers", a[0] if a else None)
    report = ([(c.path, c.diff) for c in ctx.get_changesets(cm.id)], [str(p) for p in ctx.get_failures(cm.id)], [(u.id, u.path) for u in ctx.get_unfixed_findings(cm.id)])
    return report, [f.content for f in files], pool


def scheduling(n: int, w: int, k1: int, b0: bool, b1: bool) -> bool:
    """BaseCodemod.apply under an arbitrary task completion order versus the in-order schedule (equality with the
    in-order run is transitive, so any two orders agree), with a symbolic subset of unparsable files: the
    aggregated changesets, failed files and unfixed findings (content AND order) and every file's bytes are
    identical; the executor is created with at most --max-workers workers.
    pre: 1 <= n <= 3 and 1 <= w <= 3
    post: _
    """
    k2 = 0
    bad = (b0, b1, False)
    rep1, bytes1, pool1 = _run_sched(n, w, perm(k1), bad)
    rep2, bytes2, pool2 = _run_sched(n, w, perm(k2), bad)
    cs1 = rep1[0]
    ok = rep1 == rep2 and bytes1 == bytes2 and [p for p, _ in cs1] == ["f%d.py" % i for i in range(n) if not bad[i]]
    ok = ok and rep1[1] == ["/d/f%d.py" % i for i in range(n) if bad[i]]
    ok = ok and pool1 is not None and 1 <= pool1 <= w
    return fin(ok)


def sibling_independence(n: int, i: int, k: int) -> bool:
    """BaseCodemod.apply on a project of n <= 3 files versus on the project reduced to its i-th file alone: file i
    ends with the same bytes and the same changeset (the per-file pipeline does not look at sibling files), for
    any task order.
    pre: 1 <= n <= 3 and 0 <= i < n
    post: _
    """
    (cs_all, _f, _u), bytes_all, _ = _run_sched(n, 2, perm(k))
    # the same file alone (same relative name and content)
    files = [FakePath(skel.SRC_TEXT.encode() + b"# f%d\n" % i, rel="f%d.py" % i)]
    with NoTracing():
        ctx = CodemodExecutionContext(Path("/d"), False, False, None, None, None, [], [], {}, 2)
    ctx.__dict__["find_and_fix_paths"] = list(files)
    cm = _Codemod(metadata=Metadata(name="stub", summary="s", review_guidance=ReviewGuidance.MERGE_WITHOUT_REVIEW, description="d"), transformer=LibcstTransformerPipeline(T))
    install_executor(bc)
    SchedExecutor.ORDER = [0, 1, 2]
    cm.apply(ctx)
    cs_one = [(c.path, c.diff) for c in ctx.get_changesets(cm.id)]
    ok = len(cs_one) == 1 and cs_one[0] in cs_all and [c for c in cs_all if c[0] == "f%d.py" % i] == cs_one
    ok = ok and files[0].content == bytes_all[i]
    return fin(ok)


# ------------------------------------------------------------------ registry loading order
class _EP:
    def __init__(self, name, ids):
        self.name, self.module, self.value, self._ids = name, "m." + name, "m." + name + ":registry", ids

    def load(self):
        return CodemodCollection(origin="o", codemods=[_Cm(i) for i in self._ids])

    def __hash__(self):
        return hash(self.name)

    def __eq__(self, other):
        return isinstance(other, _EP) and other.name == self.name


class _Cm:
    default_extensions = [".py"]

    def __init__(self, i):
        self.id = i


EPS = [_EP("core", ["a1", "a2"]), _EP("sonar", ["b1"]), _EP("semgrep", ["c1"])]


class _PermSet:
    """`set(...)` stand-in in registry's namespace: a set iterates in an arbitrary order (hash-seed dependent for
    objects hashed by string); ORDER is that order."""

    ORDER = [0, 1, 2]

    def __init__(self, items):
        self.items = list(items)

    def __iter__(self):
        return iter([self.items[i] for i in _PermSet.ORDER if i < len(self.items)])

    def __len__(self):
        return len(self.items)


def _perm_set(items=None):
    if items is None:
        return set()
    items = list(items)
    if items and all(isinstance(x, _EP) for x in items):
        return _PermSet(items)
    return set(items)


class _EPS:
    def __init__(self, order):
        self.order = order

    def select(self, group=None):
        return [EPS[i] for i in self.order]


def _load(set_order: List[int], ep_order: List[int]):
    reg.entry_points = lambda: _EPS(ep_order)
    reg.set = _perm_set
    _PermSet.ORDER = set_order
    try:
        r = reg.load_registered_codemods()
    finally:
        del reg.set
    return r.ids


def registry_order(k1: int, k2: int, e1: int, e2: int) -> bool:
    """load_registered_codemods: the registry's id order (which is the default execution order and the order inside
    a wildcard) is the same whatever order the set of entry points iterates in and whatever order the entry points
    are listed in by importlib.metadata.
    post: _
    """
    return fin(_load(perm(k1), perm(e1)) == _load(perm(k2), perm(e2)))


# ------------------------------------------------------------------ file enumeration order
def match_files_order(k: int, n: int) -> bool:
    """match_files: the selected files and their order do not depend on the order in which the directory walk
    produced them.
    pre: 1 <= n <= 3
    post: _
    """
    base = [Path("/d/b.py"), Path("/d/a.py"), Path("/d/pkg/c.py")][:n]
    p = [i for i in perm(k) if i < n]
    permuted = [base[i] for i in p]
    return fin(match_files(Path("/d"), permuted) == match_files(Path("/d"), base))


class _PermStrSet(set):
    """`set(...)` stand-in in code_directory's namespace: iterates its (string) elements in an arbitrary order - what
    the hash seed decides for a real set of strings; ORDER permutes the canonical order.  Differences keep the kind."""

    ORDER = [0, 1, 2]

    def __iter__(self):
        items = sorted(set.__iter__(self))
        idx = [i for i in _PermStrSet.ORDER if i < len(items)] + [i for i in range(len(items)) if i not in _PermStrSet.ORDER]
        return iter([items[i] for i in idx])

    def __sub__(self, other):
        return _PermStrSet(set.__sub__(self, other))


def _match_files_under_set_order(order, files):
    import codemodder.code_directory as cd

    cd.set = _PermStrSet
    _PermStrSet.ORDER = order
    try:
        return cd.match_files(Path("/d"), files)
    finally:
        del cd.set


def match_files_hash_order(k1: int, k2: int, n: int) -> bool:
    """match_files: the order of the selected files does not depend on the iteration order of the intermediate sets
    of path strings (which the hash seed decides) - also for paths that differ only in letter case.
    pre: 2 <= n <= 3
    post: _
    """
    base = [Path("/d/pkg/Config.py"), Path("/d/pkg/config.py"), Path("/d/a.py")][:n]
    r1 = _match_files_under_set_order(perm(k1), base)
    r2 = _match_files_under_set_order(perm(k2), base)
    return fin(r1 == r2 and len(r1) == n)


class _Parser(bp.BaseParser):
    @property
    def file_type(self):
        return FileType.REQ_TXT

    def _parse_file(self, file):
        return PackageStore(type=FileType.REQ_TXT, file=file, dependencies=set(), py_versions=[])


class _FakeDir:
    """Path(parent) stand-in in base_parser's namespace: rglob yields the manifests in an arbitrary order."""

    ORDER = [0, 1, 2]
    FILES = [Path("/d/requirements.txt"), Path("/d/sub/requirements.txt"), Path("/d/a/requirements.txt")]

    def __init__(self, p):
        pass

    def rglob(self, pattern):
        return iter([_FakeDir.FILES[i] for i in _FakeDir.ORDER])


def manifest_discovery_order(k1: int, k2: int) -> bool:
    """BaseParser.parse / find_file_locations: the list of discovered manifests (hence the manifest that
    process_dependencies writes first) does not depend on the order in which rglob enumerates the directory.
    post: _
    """
    bp.Path = _FakeDir
    try:
        _FakeDir.ORDER = perm(k1)
        s1 = [str(s.file) for s in _Parser(Path("/d")).parse()]
        _FakeDir.ORDER = perm(k2)
        s2 = [str(s.file) for s in _Parser(Path("/d")).parse()]
    finally:
        bp.Path = Path
    return fin(s1 == s2)


def planted_order_leak(k1: int, k2: int) -> bool:
    """Self-test: returning results in execution order instead of submission order must be refuted.
    post: _
    """
    return [i for i in perm(k1)] == [i for i in perm(k2)]


def warmup():
    skel.warm()
    try:
        scheduling(3, 3, 5, True, False)
    except Exception:
        pass
    sibling_independence(3, 1, 4)
    registry_order(0, 3, 1, 2)
    match_files_order(4, 3)
    match_files_hash_order(1, 4, 3)
    manifest_discovery_order(0, 5)


SPEC = {
    "property": "C11",
    "level": "model_checking",
    "files": [
        "src/codemodder/codemods/base_codemod.py",
        "src/codemodder/registry.py",
        "src/codemodder/context.py",
        "src/codemodder/code_directory.py",
        "src/codemodder/project_analysis/file_parsers/base_parser.py",
    ],
    "functions": [
        "BaseCodemod.apply / _apply / _process_file (executor replaced), CodemodExecutionContext.process_results",
        "codemodder.registry.load_registered_codemods / CodemodRegistry.add_codemod_collection",
        "codemodder.code_directory.match_files",
        "BaseParser.find_file_locations / parse",
    ],
    "bounds": {
        "quick": "<= 3 files / entry points / manifests; every pair of the 6 permutations; worker counts 1, 2 and 3; task-atomic schedules (a task runs to completion; per-file work only touches its own FileContext and file)",
        "thorough": "same",
    },
    "assumptions": [
        "Executor.map yields results in submission order whatever order the tasks ran in (documented contract)",
        "set iteration order and rglob order are arbitrary (modelled as symbolic permutations)",
        "preemption inside _process_file is not modelled",
    ],
    "stubs": ["ThreadPoolExecutor (SchedExecutor)", "set() in registry (permuting iteration)", "entry_points", "Path.rglob in base_parser", "file (FakePath)", "logger"],
    "outside": ["real thread interleavings inside a task", "sibling-file independence of individual codemods' transformers (the framework part is decided by sibling_independence)", "PYTHONHASHSEED effects outside registry loading"],
    "xh": [
        Xh("scheduling", 400, 900),
        Xh("sibling_independence", 300, 600),
        Xh("registry_order", 200, 400),
        Xh("match_files_hash_order", 100, 200),
        Xh("match_files_order", 120, 300),
        Xh("manifest_discovery_order", 120, 300),
        Xh("planted_order_leak", 60, 120, twin=False, expect="refuted"),
    ],
}
