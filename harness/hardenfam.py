"""Hardening family for C16: selector-built modules through the complete real pipelines of detector-less hardening
codemods.  Oracle (C16's statement): the rewritten module parses; every argument of the hardened call is kept, in
order (apart from the codemod's documented argument edit); statements that are not the vulnerable call - including a
call spelled the same way but bound to another import in another scope - are unchanged; the safe API appears."""
import ast

from crosshair.tracers import NoTracing

_REG = None
#  codemod id suffix, module, function, args pool, expected marker in the output, documented argument rewrite
TABLE = [
    ("use-defusedxml", "xml.dom.minidom", "parse", ["p", "p, bufsize=8", "*a, **k"], "defusedxml", None),
    ("harden-pickle-load", "pickle", "load", ["f", "f, encoding='x'", "*a"], "fickling", None),
    ("https-connection", "urllib3", "HTTPConnectionPool", ["'h'", "'h', 80, maxsize=2", "h, **k"], "HTTPSConnectionPool", None),
    ("subprocess-shell-false", "subprocess", "run", ["cmd, shell=True", "cmd, shell=True, check=True", "cmd, check=True, shell=True", "[c, h(d, shell=True)], shell=True"], "shell=False", ("shell=True", "shell=False")),
]


def _reg():
    global _REG
    if _REG is None:
        from codemodder.registry import load_registered_codemods

        _REG = {c.id: c for c in load_registered_codemods().codemods}
    return _REG


def sel(pool, i):
    k = 0
    while k < len(pool) - 1:
        if i % len(pool) == k:
            return pool[k]
        k += 1
    return pool[len(pool) - 1]


def build(entry, style: int, args: int, decoy: int):
    """style: 0 `import M`, 1 `import M as al`, 2 `from M import F`, 3 `from M import F as G`.
    decoy: 0 none, 1 a function that re-binds the SAME spelling to another import and calls it, 2 an unrelated call."""
    _name, mod, fn, pool, _marker, _rw = entry
    a = sel(pool, args)
    if style % 4 == 0:
        imp, callee = "import %s" % mod, "%s.%s" % (mod, fn)
    elif style % 4 == 1:
        imp, callee = "import %s as al" % mod, "al.%s" % fn
    elif style % 4 == 2:
        imp, callee = "from %s import %s" % (mod, fn), fn
    else:
        imp, callee = "from %s import %s as G" % (mod, fn), "G"
    target = "r = %s(%s)" % (callee, a)
    lines = [imp, "", target]
    keep = []
    if decoy % 3 == 1:
        spelled = callee.split(".")[0]
        d = ["def other():", "    from unrelated.pkg import %s" % spelled if "." not in callee else "    import unrelated.pkg as %s" % spelled, "    return %s(%s)" % (callee, a)]
        lines += d
        keep += d
    elif decoy % 3 == 2:
        d = ["s = print(%s)" % a.replace("*a", "1").replace("**k", "sep=''").replace("h(d, shell=True)", "d").replace("shell=True", "end=''")]
        lines += d
        keep += d
    return "\n".join(lines) + "\n", target, a, keep


def _call_args(code_line):
    tree = ast.parse(code_line.strip())
    call = tree.body[0].value
    return [ast.unparse(x) for x in call.args] + ["%s=%s" % (k.arg, ast.unparse(k.value)) if k.arg else "**" + ast.unparse(k.value) for k in call.keywords]


def check(entry, style, args, decoy):
    from tv import driver

    name, mod, fn, pool, marker, rewrite = entry
    src, target, a, keep = build(entry, style, args, decoy)
    with NoTracing():
        out, nchanges = driver.run_pipeline(_reg()["pixee:python/" + name], src)
        try:
            ast.parse(out)
        except SyntaxError:
            return "rewritten module does not parse:\n" + out
        out_lines = out.split("\n")
        for k in keep:
            if k not in out_lines:
                return "a statement that is not the vulnerable call changed (%r):\n%s" % (k, out)
        r_lines = [l for l in out_lines if l.startswith("r = ")]
        if len(r_lines) != 1:
            return "target statement missing:\n" + out
        if marker not in out:
            return "the safe API (%s) does not appear:\n%s" % (marker, out)
        exp = _call_args(target)
        if rewrite:
            # only the call's OWN keyword is rewritten - a nested call carrying the same keyword keeps it
            exp = [rewrite[1] if x == rewrite[0] else x for x in exp]
        got = _call_args(r_lines[0])
        # documented edits may append arguments; the original ones must be kept, in order, as a prefix-preserving subsequence
        it = iter(got)
        if not all(any(g == e for g in it) for e in exp):
            return "arguments not preserved in order: %r -> %r" % (exp, got)
        return None
