"""Statement-removal / statement-rewriting family (C01): the trigger statement of a detector-less codemod is placed,
by selectors, in a block context x with comments / blank lines around it x line-ending and indentation convention,
and pushed through the codemod's complete real pipeline.  Oracle = C01's statement: the original compiles (or, for
the stray `break` codemod, parses) => the output compiles (parses).  Removing the only statement of a block is the
interesting corner: libcst writes `pass` only when the body is really empty."""
import ast

from crosshair.tracers import NoTracing

_REG = None


def _reg():
    global _REG
    if _REG is None:
        from codemodder.registry import load_registered_codemods

        _REG = {c.id: c for c in load_registered_codemods().codemods}
    return _REG


#  codemod, prelude (module level), trigger statement, contexts allowed, parse-only
#  contexts: 0 module level, 1 sole statement of an `if` body, 2 sole statement of a function body, 3 last statement of
#  a `try` body with an `except`, 4 sole statement of an `else` branch, 5 sole statement of a `for` body, 6 between two
#  other statements of a function body, 7 after `x = 1; ` on the same line inside an `if`
TABLE = [
    ("remove-debug-breakpoint", [], "breakpoint()", [0, 1, 2, 3, 4, 5, 6, 7], False),
    ("remove-debug-breakpoint", ["import pdb"], "pdb.set_trace()", [0, 1, 2, 3, 4, 5, 6, 7], False),
    ("unused-imports", [], "import os", [0, 1, 2, 3, 4, 5, 6, 7], False),
    ("remove-module-global", [], "global zz", [0, 1, 3, 4, 5, 7], False),
    ("break-or-continue-out-of-loop", [], "break", [1, 2, 3, 4, 6, 7], True),
    ("break-or-continue-out-of-loop", [], "continue", [1, 2, 3, 4, 6, 7], True),
    ("exception-without-raise", [], "ValueError('x')", [0, 1, 2, 3, 4, 5, 6, 7], False),
    ("fix-assert-tuple", [], "assert (1, 2)", [0, 1, 2, 3, 4, 5, 6, 7], False),
    ("remove-assertion-in-pytest-raises", ["import pytest"], "with pytest.raises(ValueError):\n    assert 1\n    assert 2", [0, 1, 2, 3, 4, 5, 6], False),
    ("remove-future-imports", [], "from __future__ import print_function", [0], False),
    ("remove-future-imports", [], "from __future__ import annotations, print_function", [0], False),
    ("remove-future-imports", [], "from __future__ import print_function, annotations", [0], False),
    ("fix-assert-tuple", [], "assert (\n    y ==\n    1,\n    2\n)", [0, 1, 2, 3, 4, 5, 6], False),
    ("fix-empty-sequence-comparison", [], "w = 1 + (y == [])", [0, 1, 2, 3, 4, 5, 6, 7], False),
    ("fix-empty-sequence-comparison", [], "w = -(y != []) + (y == ())", [0, 1, 2, 3, 4, 5, 6, 7], False),
    ("use-walrus-if", [], "t = y, 2\nif t:\n    print(t)", [0, 1, 2, 3, 4, 5, 6], False),
    ("use-walrus-if", [], "t = yield\nif t is None:\n    print(t)", [2, 6], False),
]


def sel(pool, i):
    k = 0
    while k < len(pool) - 1:
        if i % len(pool) == k:
            return pool[k]
        k += 1
    return pool[len(pool) - 1]


def _ind(code, n):
    return "\n".join(("    " * n + l) if l else l for l in code.split("\n"))


def build(entry: int, ctx: int, above: int, trail: int, eol: int, tabs: int):
    """above: 0 nothing, 1 a comment line, 2 a blank line, 3 a comment and a blank line above the trigger;
    trail: 0 nothing, 1 a trailing comment on the trigger's line;  eol: 0 LF, 1 CRLF;  tabs: 0 spaces, 1 tabs."""
    name, prelude, trig, ctxs, parse_only = sel(TABLE, entry)
    c = sel(ctxs, ctx)
    lines = trig.split("\n")
    if trail % 2 == 1 and len(lines) == 1:
        lines[0] += "  # why"
    pre = sel([[], ["# note"], [""], ["# note", ""]], above)
    block = "\n".join(pre + lines)
    if c == 0:
        body = block + "\ny = 2"
    elif c == 1:
        body = "if y:\n" + _ind(block, 1) + "\nz = 3"
    elif c == 2:
        body = "def fn():\n" + _ind(block, 1) + "\nz = 3"
    elif c == 3:
        body = "try:\n    y = 2\n" + _ind(block, 1) + "\nexcept Exception:\n    y = 4"
    elif c == 4:
        body = "if y:\n    y = 2\nelse:\n" + _ind(block, 1) + "\nz = 3"
    elif c == 5:
        body = "for _i in range(2):\n" + _ind(block, 1) + "\nz = 3"
    elif c == 6:
        body = "def fn():\n    a = 1\n" + _ind(block, 1) + "\n    return a"
    else:
        body = "if y:\n" + _ind("\n".join(pre + ["x = 1; " + lines[0]] + lines[1:]), 1) + "\nz = 3"
    src = "\n".join(prelude + ["y = 1"]) + "\n" + body + "\n"
    if name == "remove-future-imports":
        src = block + "\ny = 1\n"
    if tabs % 2 == 1:
        src = src.replace("    ", "\t")
    if eol % 2 == 1:
        src = src.replace("\n", "\r\n")
    return name, src, parse_only


def _valid(code, parse_only):
    try:
        if parse_only:
            ast.parse(code)
        else:
            compile(code, "m.py", "exec")
        return None
    except SyntaxError as e:
        return "%s (line %s)" % (e.msg, e.lineno)


def check(entry, ctx, above, trail, eol, tabs):
    from tv import driver

    name, src, parse_only = build(entry, ctx, above, trail, eol, tabs)
    with NoTracing():
        if _valid(src, parse_only) is not None:
            return None  # outside the property's hypothesis (the original must be valid)
        out, _n = driver.run_pipeline(_reg()["pixee:python/" + name], src)
        err = _valid(out, parse_only)
        if err is not None:
            return "%s: rewritten file is not valid Python: %s\n--- before\n%s--- after\n%s" % (name, err, src, out)
    return None
