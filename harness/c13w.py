"""C13 (whole-transformer family) — the complete real transformer of a detector-less codemod is executed under
CrossHair on a module with three single-line candidate sites, with ONE symbolic line number n used as
`--path-exclude file:n` (or `--path-include file:n`): exactly the site on line n is skipped (respectively: is the
only one fixed), every other site is fixed exactly as in the run without line patterns, and the change entries
name exactly the rewritten sites.  All values flowing through libcst are concrete except n, so the path tree is the
handful of outcomes of the comparisons against n (about 8 paths, ~8 s each: the cost of tracing a whole libcst
visitor run)."""
from pathlib import Path

import libcst as cst

from codemodder.file_context import FileContext
from codemodder.registry import load_registered_codemods
from vlib.core import fin

_CM = {c.id: c for c in load_registered_codemods().codemods}
SOURCES = {'unused-imports': 'from os import (\n    path,\n    sep,\n    getcwd,\n)\nprint(sep)\n', 'invert-boolean-check': 'a, b = 1, 2\nr1 = not a == b\nr2 = not a < b\nr3 = not a != b\n', 'combine-startswith-endswith': "x = 'abc'\nr1 = x.startswith('a') or x.startswith('b')\nr2 = x.endswith('a') or x.endswith('b')\nr3 = x.startswith('c') or x.startswith('d')\n", 'combine-isinstance-issubclass': 'x = 1\nr1 = isinstance(x, str) or isinstance(x, bytes)\nr2 = isinstance(x, int) or isinstance(x, float)\nr3 = issubclass(int, str) or issubclass(int, bytes)\n', 'use-set-literal': 'x = 1\ns1 = set([1, 2])\ns2 = set([3])\ns3 = set([x, 4])\n', 'use-generator': 'x = [1]\nr1 = any([i for i in x])\nr2 = all([i for i in x])\nr3 = sum([i for i in x])\n', 'remove-unnecessary-f-str': 'x = 1\ns1 = f"hello"\ns2 = f\'world\'\ns3 = f"again"\n', 'fix-empty-sequence-comparison': 'x = [1]\nr1 = 1 if x == [] else 2\nr2 = 1 if x != [] else 2\nr3 = 1 if x == () else 2\n', 'literal-or-new-object-identity': 'x = 1\nr1 = x is [1]\nr2 = x is (1, 2)\nr3 = x is not [2]\n', 'numpy-nan-equality': 'import numpy as np\na = 1\nr1 = a == np.nan\nr2 = a != np.nan\nr3 = np.nan == a\n', 'exception-without-raise': "x = 1\nValueError\nTypeError('a')\nKeyError()\n", 'str-concat-in-sequence-literals': "x = 1\nl1 = ['a' 'b', 'c']\nl2 = ['d', 'e' 'f']\nl3 = ('g' 'h', 'i')\n", 'subprocess-shell-false': "import subprocess\ncmd = 'ls'\nsubprocess.run(cmd, shell=True)\nsubprocess.call(cmd, shell=True)\nsubprocess.check_output(cmd, shell=True)\n", 'fix-math-isclose': 'import math\na = 1.0\nr1 = math.isclose(a, 0)\nr2 = math.isclose(0, a)\nr3 = math.isclose(a, 0.0)\n', 'fix-async-task-instantiation': 'import asyncio\nasync def c(): pass\nasync def m():\n    t1 = asyncio.Task(c())\n    t2 = asyncio.Task(c())\n    t3 = asyncio.Task(c())\n', 'fix-mutable-params': 'x = 1\ndef f1(a=[]): pass\ndef f2(a={}): pass\ndef f3(a=[1]): pass\n', 'replace-flask-send-file': "import flask\nname = 'x'\nflask.send_file(name)\nflask.send_file('a/' + name)\nflask.send_file(name + '.txt')\n"}
# nested single-line sites: the permitted site is an argument of an enclosing call of the same kind that spans several
# lines (the enclosing multi-line call is outside C13's statement - "an edit confined to one physical line" - and is
# exempted through DONTCARE)
SOURCES['harden-pickle-load#nested'] = 'import pickle\nr1 = pickle.load(a)\nr2 = pickle.load(\n    pickle.load(b),\n)\nr3 = pickle.load(c)\n'
SOURCES['use-defusedxml#nested'] = 'import xml.dom.minidom\nr1 = xml.dom.minidom.parse(a)\nr2 = xml.dom.minidom.parse(\n    xml.dom.minidom.parse(b),\n)\nr3 = xml.dom.minidom.parse(c)\n'
SOURCES['https-connection#nested'] = 'import urllib3\nr1 = urllib3.HTTPConnectionPool(a)\nr2 = urllib3.HTTPConnectionPool(\n    urllib3.HTTPConnectionPool(b),\n)\nr3 = urllib3.HTTPConnectionPool(c)\n'
SOURCES['use-generator#nested'] = 'x = [1]\nr1 = any([i for i in x])\nr2 = print(\n    all([i for i in x]),\n)\nr3 = sum([i for i in x])\n'
SOURCES['fix-empty-sequence-comparison#nested'] = 'x = [1]\nflag = True\nr1 = (x == []) == flag\nr2 = print(\n    x != [],\n)\nr3 = 1 if x == () else 2\n'
SOURCES['invert-boolean-check#nested'] = 'a, b = 1, 2\nr1 = print(\n    not a == b,\n)\nr2 = [not a < b for _ in (1,)]\nr3 = not a != b\n'
SOURCES['numpy-nan-equality#nested'] = 'import numpy as np\na = 1\nr1 = print(\n    a == np.nan,\n)\nr2 = [a != np.nan for _ in (1,)]\n'
SOURCES['fix-math-isclose#nested'] = 'import math\na = 1.0\nr1 = print(\n    math.isclose(a, 0),\n)\nr2 = [math.isclose(0, a) for _ in (1,)]\n'
SOURCES['subprocess-shell-false#nested'] = "import subprocess\ncmd = 'ls'\nr = print(\n    subprocess.run(cmd, shell=True),\n)\nq = [subprocess.call(cmd, shell=True) for _ in (1,)]\n"
SOURCES['use-set-literal#nested'] = 'x = 1\ns1 = print(\n    set([1, 2]),\n)\ns2 = [set([3]) for _ in (1,)]\n'
SOURCES['remove-unnecessary-f-str#nested'] = 'x = 1\ns1 = print(\n    f"hello",\n)\ns2 = [f"again" for _ in (1,)]\n'
SOURCES['literal-or-new-object-identity#nested'] = 'x = 1\nr1 = print(\n    x is [1],\n)\nr2 = [x is (1, 2) for _ in (1,)]\n'
# sources for codemods that do not consult line patterns for their (multi-line) construct: only the pattern-free clause
# `{change.lineNumber} == lines rewritten` is checked for them
NO_PATTERN_SOURCES = {
    'use-walrus-if#nested': 'def f(g, c):\n    if c:\n        x = g()\n        if x:\n            print(x)\n    y = g()\n    if y:\n        print(y)\n    return 1\n',
    'use-walrus-if#loop': 'def f(g, c):\n    for _ in c:\n        x = g()\n        if x is None:\n            print(x)\n    try:\n        y = g()\n        if not y:\n            print(y)\n    finally:\n        pass\n',
}
SOURCES['order-imports'] = 'import sys\nimport os\n\nx = 1\nimport zlib\nimport abc\nprint(sys, os, zlib, abc, x)\n'
SOURCES['remove-future-imports'] = 'from __future__ import print_function\nfrom __future__ import division\nfrom __future__ import absolute_import\nimport os\n'
SOURCES['break-or-continue-out-of-loop'] = 'def f():\n    break  # a\ndef g():\n    continue  # b\ndef h():\n    break  # c\n'
DONTCARE = {'harden-pickle-load#nested': {3}, 'use-defusedxml#nested': {3}, 'https-connection#nested': {3}}


def _cm(name):
    return _CM["pixee:python/" + name.split("#")[0]]


def _run(name, exclude, include):
    fc = FileContext(Path("/d"), Path("/d/m.py"), exclude, include, None)
    tree = cst.parse_module(SOURCES[name] if name in SOURCES else NO_PATTERN_SOURCES[name])
    for t in _cm(name).transformer.transformers:
        tree = t.transform(tree, None, fc)
    return tree.code, sorted(c.lineNumber for c in fc.codemod_changes)


BASE = {}
# per-codemod site markers (default: the stripped source line); unused-imports re-flows the import statement, so its
# sites are identified by the imported name
MARKERS = {'unused-imports': {2: 'path', 4: 'getcwd'}, 'order-imports': {1: 'import sys\nimport os', 5: 'import zlib\nimport abc'}}


def _kept(name, L, src_lines, out):
    m = MARKERS.get(name, {}).get(L)
    if m is not None:
        return m in out
    return src_lines[L - 1].strip() in [l.strip() for l in out.split('\n')]


def _base(name):
    """The run without line patterns (concrete): which source lines are candidate sites and what each becomes."""
    if name not in BASE:
        src = SOURCES[name]
        out, lines = _run(name, [], [])
        BASE[name] = (out, lines)
    return BASE[name]


def _site_text(code: str, marker: str) -> bool:
    return marker in code


def _whole(name: str, n: int, include: bool) -> bool:
    src = SOURCES[name]
    out0, lines0 = _base(name)
    out, lines = _run(name, [] if include else [n], [n] if include else [])
    src_lines = src.split("\n")
    ok = True
    for L in lines0:
        kept = _kept(name, L, src_lines, out)
        fixed_expected = (L == n) if include else (L != n)
        # a site that must be fixed no longer appears verbatim; a site that must be left alone still does
        ok = ok and (kept != fixed_expected)
    exp_lines = [L for L in lines0 if ((L == n) if include else (L != n))]
    ok = ok and lines == exp_lines
    if exp_lines == lines0:
        ok = ok and out == out0
    if not exp_lines:
        ok = ok and out == src
    return ok


def whole_invert_boolean_check(n: int, include: bool) -> bool:
    """invert-boolean-check: whole transformer, symbolic line n as exclude (or include) line pattern.
    pre: 1 <= n <= 7
    post: _
    """
    return fin(_whole('invert-boolean-check', n, include))


def warmup():
    for name in SOURCES:
        _base(name)


WHOLE = ["whole_invert_boolean_check"]


# ------------------------------------------------------------------ E3-style exploration for every codemod
class Leak(Exception):
    pass


class SymLine:
    """A symbolic line number handed to the real transformer inside line_exclude / line_include.  It supports
    only comparisons with ints; each comparison is recorded as an atom (op, k) and answered for the current
    witness value.  Any other use (arithmetic, hashing, formatting) raises Leak: the exploration is only valid
    if the code depends on n through the recorded comparisons alone."""

    def __init__(self, witness, atoms):
        self.w, self.atoms = witness, atoms

    def _cmp(self, op, other):
        if isinstance(other, SymLine) or not isinstance(other, int):
            raise Leak("comparison with %r" % (other,))
        self.atoms.add((op, int(other)))
        w = self.w
        return {"==": w == other, "!=": w != other, "<": w < other, "<=": w <= other, ">": w > other, ">=": w >= other}[op]

    def __eq__(self, o):
        return self._cmp("==", o)

    def __ne__(self, o):
        return self._cmp("!=", o)

    def __lt__(self, o):
        return self._cmp("<", o)

    def __le__(self, o):
        return self._cmp("<=", o)

    def __gt__(self, o):
        return self._cmp(">", o)

    def __ge__(self, o):
        return self._cmp(">=", o)

    def __hash__(self):
        raise Leak("hash")

    def __index__(self):
        raise Leak("index")

    def __repr__(self):
        return "<n>"


def _cells(atoms):
    """All z3-consistent truth assignments of the recorded atoms over n in Z, each with a witness value."""
    import z3

    n = z3.Int("n")
    terms = []
    for op, k in sorted(atoms):
        terms.append({"==": n == k, "!=": n != k, "<": n < k, "<=": n <= k, ">": n > k, ">=": n >= k}[op])
    s = z3.Solver()
    out = []
    q = 0
    while True:
        q += 1
        if str(s.check()) != "sat":
            break
        m = s.model()
        val = m.eval(n, model_completion=True).as_long()
        out.append(val)
        # block this cell
        s.add(z3.Or([t != z3.is_true(m.eval(t, model_completion=True)) for t in terms]) if terms else z3.BoolVal(False))
    return out, q


def explore(name, include):
    """Run the real transformer natively for one witness per cell of the partition of Z induced by the comparisons
    the code itself makes against n; refine until no new comparison appears."""
    atoms, done, runs, queries = set(), {}, 0, 0
    while True:
        witnesses, q = _cells(atoms)
        queries += q
        new = [w for w in witnesses if w not in done]
        if not new:
            break
        before = len(atoms)
        for w in new:
            sym = SymLine(w, atoms)
            src = SOURCES[name]
            out0, lines0 = _base(name)
            fc = FileContext(Path("/d"), Path("/d/m.py"), [] if include else [sym], [sym] if include else [], None)
            tree = cst.parse_module(src)
            try:
                for t in _cm(name).transformer.transformers:
                    tree = t.transform(tree, None, fc)
                out, lines, exc = tree.code, sorted(c.lineNumber for c in fc.codemod_changes), None
            except Leak:
                raise
            except Exception as e:  # noqa
                out, lines, exc = None, None, "%s: %s" % (type(e).__name__, e)
            runs += 1
            done[w] = _verdict(name, w, include, out, lines, exc)
    return done, atoms, runs, queries


def no_pattern_verdict(name):
    """Pattern-free run: every line a change entry names was really rewritten (its text is gone from the output)."""
    src = NO_PATTERN_SOURCES[name]
    try:
        out, lines = _run(name, [], [])
    except Exception as e:  # noqa
        return "transformer raised %s: %s" % (type(e).__name__, e)
    if not lines:
        return "no change at all (the source was chosen to contain sites)"
    src_lines = src.split("\n")
    out_lines = [l.strip() for l in out.split("\n")]
    for L in lines:
        if src_lines[L - 1].strip() in out_lines:
            return "a change entry names line %d, but that line was not rewritten:\n%s" % (L, out)
    return None


def _verdict(name, n, include, out, lines, exc):
    if exc is not None:
        return "transformer raised " + exc
    src = SOURCES[name]
    out0, lines0 = _base(name)
    src_lines = src.split("\n")
    dc = DONTCARE.get(name, set())
    for L in lines0:
        if L in dc:
            continue
        kept = _kept(name, L, src_lines, out)
        fixed_expected = (L == n) if include else (L != n)
        if kept == fixed_expected:
            return "site on line %d %s" % (L, "was not fixed" if fixed_expected else "was rewritten although not permitted")
    exp_lines = [L for L in lines0 if L not in dc and ((L == n) if include else (L != n))]
    if [L for L in lines if L not in dc] != exp_lines:
        return "change entries name lines %r, expected %r" % (lines, exp_lines)
    return None
