"""C20 — the exit status tells the caller what happened.

The real `codemodder.run` is executed with its collaborators replaced by nondeterministic stubs whose answers
are symbolic flags; the real `detect_sarif_tools`, `CodemodExecutionContext.__init__` + `llm.setup_*_client`,
`CodeTF.write_report` and `cli.parse_args` / `ArgumentParser.error` stay real.
"""
import types
from collections import defaultdict
from pathlib import Path

import codemodder.cli as cli
import codemodder.codemodder as cm
import codemodder.codetf as codetf_mod
import codemodder.context as ctxmod
import codemodder.llm as llm
import codemodder.sarifs as sarifs
from codemodder.codeql import CodeQLSarifToolDetector
from codemodder.semgrep import SemgrepSarifToolDetector
from vlib.core import NoLog, fin
from vlib.main import Xh

LOG = NoLog()
for _m in (cm, codetf_mod, ctxmod, llm, sarifs, cli):
    _m.logger = LOG
cm.log_section = lambda *a, **k: None
cm.log_list = lambda *a, **k: None
cm.log_report = lambda *a, **k: None
cm.configure_logger = lambda *a, **k: None


class Env:
    pass


ENV = Env()
_REAL_OS = cm.os


class FakeRegistry:
    ids = ["pixee:python/a", "pixee:python/b"]
    default_include_paths = []

    def match_codemods(self, *a, **k):
        ENV.match_args = (a, k)
        return []

    def describe_codemods(self, *a, **k):
        return []


cm.registry = types.SimpleNamespace(load_registered_codemods=lambda: FakeRegistry())
cm.providers = types.SimpleNamespace(load_providers=lambda: None)

SARIF_TEXT = {
    0: '{"runs": [{"tool": {"driver": {"name": "Semgrep OSS"}}, "results": []}]}',
    1: '{"runs": [{"tool": {"driver": {"name": "CodeQL"}}, "results": []}]}',
    2: '{"runs": [{"tool": {"driver": {"name": "other"}}, "results": []}]}',
    # a Semgrep file whose FIRST run is malformed (no driver name): that run is skipped, the file is still Semgrep's
    3: '{"runs": [{"tool": {"driver": {}}, "results": []}, {"tool": {"driver": {"name": "Semgrep OSS"}}, "results": []}]}',
}
EFFECTIVE_TOOL = {0: 0, 1: 1, 2: 2, 3: 0}


class FakeFile:
    """Stands for Path(name) of a result file given on the command line."""

    def __init__(self, name):
        self.name = name

    def read_text(self, *a, **k):
        if not ENV.exists.get(self.name, False):
            raise FileNotFoundError(self.name)
        return SARIF_TEXT[ENV.sarif_tool[self.name]]

    def __str__(self):
        return self.name


class _FakePathFactory:
    def __call__(self, name):
        if isinstance(name, str) and (name.startswith("S") or name.startswith("J")):
            return FakeFile(name)
        return Path(name)


class _EPs:
    def select(self, group=None):
        return [
            types.SimpleNamespace(name="semgrep", load=lambda: SemgrepSarifToolDetector),
            types.SimpleNamespace(name="codeql", load=lambda: CodeQLSarifToolDetector),
        ]


sarifs.entry_points = lambda: _EPs()


class FakeOsForRun:
    class path:
        @staticmethod
        def exists(p):
            return ENV.exists.get(str(p), False)

        basename = staticmethod(_REAL_OS.path.basename)


class FakeOsForLlm:
    @staticmethod
    def getenv(k, default=None):
        return ENV.env.get(k, default)


class FakeRM:
    def __init__(self, d):
        pass

    def parse_project(self):
        pass


class _Client:
    def __init__(self, *a, **k):
        pass


WRITTEN = []


class _W:
    def __init__(self, name):
        self.name = name

    def __enter__(self):
        if not ENV.report_writable:
            if getattr(ENV, "report_value_error", False):
                raise ValueError("embedded null byte")  # what open() raises for a NUL in the path: not an OSError
            raise PermissionError(self.name)
        return self

    def __exit__(self, *a):
        return False

    def write(self, s):
        WRITTEN.append(self.name)


def _install():
    cm.os = FakeOsForRun
    cm.Path = _FakePathFactory()
    cm.PythonRepoManager = FakeRM
    cm.find_semgrep_results = lambda *a, **k: None
    cm.apply_codemods = lambda *a, **k: None
    llm.os = FakeOsForLlm
    llm.AzureOpenAI = _Client
    llm.OpenAI = _Client
    llm.ChatCompletionsClient = _Client
    llm.AzureKeyCredential = _Client
    codetf_mod.open = lambda name, *a, **k: _W(name)


def _args(n_sarif, has_sonar, has_dd, has_output, dry_run, empty_name=False, hotspots=False):
    return types.SimpleNamespace(
        directory="D", verbose=False, log_format=None, project_name=None,
        sarif=["S%d" % i for i in range(n_sarif)] or None,
        # `--sonar-issues-json=J1,` (trailing comma) yields an empty file name: a result file that does not exist
        sonar_issues_json=(["J1", ""] if empty_name else ["J1"]) if has_sonar else None, sonar_hotspots_json=["J3"] if hotspots else None,
        defectdojo_findings_json=["J2"] if has_dd else None,
        dry_run=dry_run, path_include=[], path_exclude=[], max_workers=1,
        codemod_include=None, codemod_exclude=None, output="OUT" if has_output else None,
    )


def _tool(i: int) -> int:
    if i % 4 == 0:
        return 0
    if i % 4 == 1:
        return 1
    if i % 4 == 2:
        return 2
    return 3


def run_status_inputs(dir_exists: bool, n_sarif: int, t0: int, t1: int, e0: bool, e1: bool, has_sonar: bool, sonar_exists: bool, has_dd: bool, dd_exists: bool, empty_name: bool, hotspots: bool) -> bool:
    """run(): status for every combination of target-directory / result-file conditions (AI settings consistent,
    report writable): 1 iff the directory or a supplied result file is missing or two SARIF inputs come from the
    same tool (an empty file name produced by a trailing comma counts as a missing file), else 0 and the report is written.
    (0-1 SARIF inputs here; two SARIF inputs in run_status_two_sarif.)
    pre: 0 <= n_sarif <= 1
    post: _
    """
    return run_status(dir_exists, n_sarif, t0, t1, e0, e1, has_sonar, sonar_exists, has_dd, dd_exists, 0, 0, 0, 0, True, True, False, empty_name, hotspots)


def run_status_two_sarif(dir_exists: bool, t0: int, t1: int, e0: bool, e1: bool, has_sonar: bool, sonar_exists: bool) -> bool:
    """run() with TWO SARIF inputs: every pair of detected tools (first file: Semgrep, CodeQL, another tool, Semgrep
    preceded by a malformed run; second: Semgrep, CodeQL, another tool) x each file existing or not x an optional Sonar
    file: 1 iff something is missing or both files belong to the same registered tool, else 0 with the report written.
    post: _
    """
    return run_status(dir_exists, 2, t0, t1, e0, e1, has_sonar, sonar_exists, False, True, 0, 0, 0, 0, True, True, False, False, False)


def run_status_ai_report(sonar_missing: bool, az_key: int, az_ep: int, ll_key: int, ll_ep: int, has_output: bool, report_writable: bool, dry_run: bool, value_error: bool = False) -> bool:
    """run(): status for every combination of AI-client environment settings, --output given / writable and
    --dry-run (plus one missing result file; each variable absent / exported-but-empty / set): 3 for an inconsistent AI configuration, 2 when the report cannot
    be written, 0 otherwise; non-zero never with a written report.
    post: _
    """
    ENV.report_value_error = True if value_error else False  # the report cannot be written: OSError or any other error
    try:
        return run_status(True, 1, 0, 0, True, True, True, not sonar_missing, False, True, az_key, az_ep, ll_key, ll_ep, has_output, report_writable, dry_run)
    finally:
        ENV.report_value_error = False


def run_status(dir_exists: bool, n_sarif: int, t0: int, t1: int, e0: bool, e1: bool, has_sonar: bool, sonar_exists: bool,
               has_dd: bool, dd_exists: bool, az_key: int, az_ep: int, ll_key: int, ll_ep: int,
               has_output: bool, report_writable: bool, dry_run: bool, empty_name: bool = False, hotspots: bool = False, check_eligibility: bool = False, check_files: bool = False) -> bool:
    """codemodder.run(): the returned status is the documented one for the condition that applies (1: missing
    directory / missing result file / two SARIF inputs of the same tool; 3: inconsistent AI-client settings; 2:
    report cannot be written; else 0); a non-zero status is never returned for a run whose report was written;
    status 0 with --output means the report was written; --dry-run reaches the execution context.
    (helper: the contracts are on run_status_inputs / run_status_ai_report)"""
    _install()
    ENV.exists = {"D": dir_exists, "S0": e0, "S1": e1, "J1": sonar_exists, "J2": dd_exists, "J3": True}
    ENV.match_args = None
    ENV.sarif_tool = {"S0": _tool(t0), "S1": _tool(t1 % 3)}  # the malformed-first file is the FIRST input (4 x 3 tool pairs)
    ENV.env = {}
    # each variable: 0 absent, 1 exported but empty (counts as not configured), 2 set
    for name, v, val in (("CODEMODDER_AZURE_OPENAI_API_KEY", az_key, "k"), ("CODEMODDER_AZURE_OPENAI_ENDPOINT", az_ep, "https://e"),
                         ("CODEMODDER_AZURE_LLAMA_API_KEY", ll_key, "k"), ("CODEMODDER_AZURE_LLAMA_ENDPOINT", ll_ep, "https://e")):
        if v % 3 == 1:
            ENV.env[name] = ""
        elif v % 3 == 2:
            ENV.env[name] = val
    ENV.report_writable = report_writable
    WRITTEN.clear()
    captured = []
    RealCtx = ctxmod.CodemodExecutionContext

    class Ctx(RealCtx):
        def __init__(self, *a, **k):
            super().__init__(*a, **k)
            captured.append(self)

        def compile_results(self, codemods):
            return []

    cm.CodemodExecutionContext = Ctx
    cm.parse_args = lambda argv, reg: _args(n_sarif, has_sonar, has_dd, has_output, dry_run, empty_name, hotspots)
    got = cm.run(["D"])

    applicable = set()
    if not dir_exists:
        applicable.add(1)
    else:
        sarif_missing = (n_sarif >= 1 and not e0) or (n_sarif >= 2 and not e1)
        dup = n_sarif == 2 and e0 and e1 and EFFECTIVE_TOOL[ENV.sarif_tool["S0"]] == EFFECTIVE_TOOL[ENV.sarif_tool["S1"]] and ENV.sarif_tool["S0"] != 2
        if sarif_missing or dup or (has_sonar and (not sonar_exists or empty_name)) or (has_dd and not dd_exists):
            applicable.add(1)
        if (az_key % 3 == 2) != (az_ep % 3 == 2) or (ll_key % 3 == 2) != (ll_ep % 3 == 2):
            applicable.add(3)
        if not applicable and has_output and not report_writable:
            applicable.add(2)
    if not dir_exists:
        ok = got == 1
    elif applicable:
        ok = got in applicable
    else:
        ok = got == 0
    ok = ok and (got == 0 or WRITTEN == [])
    if got == 0 and has_output:
        ok = ok and WRITTEN == ["OUT"]
    if got == 0 and not has_output:
        ok = ok and WRITTEN == []
    if captured:
        ok = ok and captured[0].dry_run == dry_run
    if check_files and captured:
        # C12 (asserted only on behalf of C12's obligation): every result file named on the command line reaches the
        # execution context under its tool - issues AND hotspots files under "sonar"
        m = captured[0].tool_result_files_map
        exp_sonar = ((["J1", ""] if empty_name else ["J1"]) if has_sonar else []) + (["J3"] if hotspots else [])
        ok = ok and sorted(m.get("sonar", [])) == sorted(exp_sonar) and list(m.get("defectdojo", [])) == (["J2"] if has_dd else [])
        for i in range(n_sarif):
            t = EFFECTIVE_TOOL[ENV.sarif_tool["S%d" % i]]
            if t in (0, 1):
                ok = ok and ("S%d" % i) in [str(x) for x in m.get("semgrep" if t == 0 else "codeql", [])]
    if check_eligibility and ENV.match_args is not None:
        # C17 (asserted only on behalf of C17's eligibility obligation, never by a C20 obligation): tool-specific codemods are the eligible set exactly when Sonar issue files or SARIF files are supplied
        a, k = ENV.match_args
        sast_only = k.get("sast_only", a[2] if len(a) > 2 else False)
        ok = ok and bool(sast_only) == (has_sonar or n_sarif > 0)
    return fin(ok)


def _eligibility(n_sarif, t0, has_sonar, has_dd, hotspots):
    """Plain helper (no contract) for C17's eligibility obligation: every input exists, settings consistent."""
    TWIN_SAFE = run_status.__globals__["fin"]
    run_status.__globals__["fin"] = lambda x=True: x
    try:
        return run_status(True, n_sarif, t0, 0, True, True, has_sonar, True, has_dd, True, 0, 0, 0, 0, True, True, False, False, hotspots, True)
    finally:
        run_status.__globals__["fin"] = TWIN_SAFE


VECTORS = [
    (["D"], None),
    (["D", "--dry-run", "--output", "o.codetf"], None),
    (["D", "--no-dry-run", "--verbose", "--max-workers", "4"], None),
    (["D", "--output", "a", "--output", "b"], None),
    (["D", "--codemod-include", "a,b", "--path-include", "*.py,x:3"], None),
    ([], 3),
    (["D", "--bogus"], 3),
    (["D", "E"], 3),
    (["D", "--codemod-include", "a", "--codemod-exclude", "b"], 3),
    (["D", "--max-workers", "many"], 3),
    (["D", "--max-workers", "0"], 3),
    (["D", "--max-workers=-3"], 3),
    (["D", "--output-format", "zip"], 3),
    (["D", "--output"], 3),
    (["D", "--log-format", "xml"], 3),
    (["--version"], 0),
    (["--help"], 0),
    (["D", "--list"], 0),
    (["D", "--describe"], 0),
]


def cli_status(sel: int) -> bool:
    """cli.parse_args on a vocabulary of argument vectors (valid, unknown, conflicting, repeated, missing
    operands, informational): valid vectors parse, invalid ones exit with status 3, --version/--help/--list/
    --describe exit 0.
    pre: 0 <= sel < 19
    post: _
    """
    import contextlib
    import io

    k = 0
    while k < len(VECTORS) - 1:
        if sel == k:
            break
        k += 1
    argv, exp = VECTORS[k]
    buf = io.StringIO()
    code = None
    try:
        with contextlib.redirect_stdout(buf), contextlib.redirect_stderr(buf):
            ns = cli.parse_args(list(argv), FakeRegistry())
    except SystemExit as e:
        code = e.code if e.code is not None else 0
    if exp is None:
        return fin(code is None and ns.directory == "D")
    return fin(code == exp)


def planted_status_dropped(report_writable: bool) -> bool:
    """Self-test: a run() that ignores write_report's status must be refuted by the run_status oracle.
    post: _
    """
    _install()
    ENV.report_writable = report_writable
    WRITTEN.clear()
    status = codetf_mod.CodeTF.write_report(types.SimpleNamespace(model_dump_json=lambda **k: "{}"), "OUT")
    got = 0  # the planted defect: status ignored
    return got == (0 if report_writable else 2)


def warmup():
    run_status_two_sarif(True, 0, 1, True, True, True, True)
    run_status_inputs(True, 1, 0, 1, True, True, True, True, True, True, False, False)
    run_status_inputs(True, 0, 0, 1, True, True, True, True, False, True, True, True)
    run_status_ai_report(False, 2, 2, 0, 1, True, True, True)
    run_status(True, 2, 0, 1, True, True, True, True, True, True, 2, 2, 0, 0, True, True, True)
    run_status(True, 1, 0, 1, True, True, False, True, False, True, 2, 1, 0, 0, True, False, False)
    for i in range(len(VECTORS)):
        cli_status(i)


SPEC = {
    "property": "C20",
    "level": "model_checking",
    "files": ["src/codemodder/codemodder.py", "src/codemodder/cli.py", "src/codemodder/codetf.py", "src/codemodder/sarifs.py", "src/codemodder/llm.py", "src/codemodder/context.py"],
    "functions": [
        "codemodder.codemodder.run",
        "codemodder.sarifs.detect_sarif_tools (+ SemgrepSarifToolDetector.detect, CodeQLSarifToolDetector.detect)",
        "codemodder.context.CodemodExecutionContext.__init__",
        "codemodder.llm.setup_openai_llm_client / setup_azure_llama_llm_client",
        "codemodder.codetf.CodeTF.write_report",
        "codemodder.cli.parse_args / ArgumentParser.error / CsvListAction / ListAction / DescribeAction",
    ],
    "bounds": {
        "quick": "symbolic environment flags of run(), explored in two groups (input conditions: 10 flags; AI settings / report / dry-run: 8 flags): directory exists; 0-2 SARIF files x tool in {semgrep, codeql, other, semgrep preceded by a malformed run} x exists; Sonar / DefectDojo file given x exists; 4 AI-client environment variables (absent / exported but empty / set); --output given x writable / OSError / non-OSError on write; --dry-run.  CLI: a vocabulary of 19 argument vectors selected by a symbolic index",
        "thorough": "same space",
    },
    "assumptions": [
        "when several failure conditions hold at once any of their documented statuses is accepted (the property fixes the status per condition, the code fixes the order)",
        "os.path.exists, Path() of result files, entry_points, os.getenv, open() for the report, the AI client constructors, the registry, repo manager, apply_codemods and find_semgrep_results are stubs",
    ],
    "stubs": ["os.path.exists", "Path (result files)", "entry_points (real detector classes)", "os.getenv", "open (report)", "AzureOpenAI/OpenAI/ChatCompletionsClient constructors", "registry / providers / PythonRepoManager / apply_codemods / find_semgrep_results / log functions"],
    "outside": ["argument vectors outside the vocabulary", "OS-level reasons why a report is unwritable (modelled as open() raising)", "exit status of uncaught exceptions inside codemods (C10)"],
    "xh": [
        Xh("run_status_inputs", 400, 900),
        Xh("run_status_two_sarif", 400, 900),
        Xh("run_status_ai_report", 300, 900),
        Xh("cli_status", 200, 400),
        Xh("planted_status_dropped", 60, 120, twin=False, expect="refuted"),
    ],
}
