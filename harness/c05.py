"""C05 — exactly the files selected by the include/exclude patterns are touched (path-selection part).

E3.  The real selection code (match_files / filter_files, CodemodExecutionContext.find_and_fix_paths /
filter_paths, FindAndFixCodemod / RemediationCodemod.get_files_to_analyze) runs on a one-file universe whose path
is a sentinel; `fnmatch.filter` answers from a decision vector and records the pattern strings it is handed.
The relative path is a z3 string p: z3 decides, with the languages of the real `fnmatch.translate` output
(translated by symre), which decision vectors some path can realise and whether on any of them the real outcome
differs from the reference; and proves the default tables equivalent to a component-level specification.
"""
import fnmatch as real_fnmatch
import itertools
import os
import time
import types
from pathlib import Path

import z3

import codemodder.code_directory as cd
import symre
from codemodder.code_directory import DEFAULT_EXCLUDED_PATHS, DEFAULT_INCLUDED_PATHS
from codemodder.codemods.base_codemod import Metadata, ReviewGuidance
from codemodder.context import CodemodExecutionContext
from codemodder.result import LineInfo, Location, Result, ResultSet
from core_codemods.api.core_codemod import CoreCodemod, SASTCodemod
from vlib.core import ROOT

S = z3.StringVal
P = z3.String("p")
# relative path: non-empty, components separated by single '/', no NUL; components are not empty
COMP = z3.Plus(z3.Diff(symre.ANY, z3.Union(z3.Re("/"), z3.Re("\x00"))))
PATHLANG = z3.Concat(COMP, z3.Star(z3.Concat(z3.Re("/"), COMP)))
NOSLASH = z3.Diff(symre.ANY, z3.Union(z3.Re("/"), z3.Re("\x00")))
# pathlib: suffix == ".py"  <=>  final component is X + ".py" with X non-empty
PY_SUFFIX = z3.Concat(z3.Option(z3.Concat(symre.ALL, z3.Re("/"))), z3.Plus(NOSLASH), z3.Re(".py"))


def glob_lang(pat: str):
    return symre.from_pattern(real_fnmatch.translate(pat))


SENT_PY = "\x00SYM\x00.py"
SENT_TXT = "\x00SYM\x00.txt"


class Ora:
    vec = {}
    seen = []
    sent = SENT_PY
    leak = None


def _filter(names, pat):
    names = list(names)
    if names not in ([Ora.sent], []):
        Ora.leak = names
    if pat not in Ora.seen:
        Ora.seen.append(pat)
    return names if Ora.vec.get(pat, False) else []


def _no_fnmatch(*a, **k):
    raise AssertionError("unexpected fnmatch.fnmatch in path selection")


STUB = types.SimpleNamespace(filter=_filter, fnmatch=_no_fnmatch, translate=real_fnmatch.translate)


class Reg:
    default_include_paths = ["*.py", "**/*.py"]


class Pipe:
    pass


MD = Metadata(name="m", summary="s", review_guidance=ReviewGuidance.MERGE_WITHOUT_REVIEW, description="d")


class L(Location):
    pass


class R(Result):
    def __hash__(self):
        return 1


class _Sast(SASTCodemod):
    @property
    def origin(self):
        return "sonar"


def _ctx(inc, exc, sent):
    c = CodemodExecutionContext(Path("/T"), False, False, Reg(), None, None, list(inc), list(exc), {}, 1)
    c.__dict__["files_to_analyze"] = [Path("/T") / sent]
    return c


def outcome(kind, inc, exc, vec, sent=SENT_PY):
    """Run the real selection code for one decision vector; returns (selected?, patterns queried)."""
    Ora.vec, Ora.seen, Ora.sent, Ora.leak = vec, [], sent, None
    cd.fnmatch = STUB
    try:
        c = _ctx(inc, exc, sent)
        if kind == "ff":
            files = CoreCodemod(metadata=MD, transformer=Pipe()).get_files_to_analyze(c, None)
        else:
            rs = ResultSet()
            rs.add_result(R(rule_id="r1", locations=[L(file=Path(sent), start=LineInfo(1), end=LineInfo(1))]))
            files = _Sast(metadata=MD, transformer=Pipe(), requested_rules=["r1"]).get_files_to_analyze(c, rs)
    finally:
        cd.fnmatch = real_fnmatch
    assert files in ([], [Path("/T") / sent]), files
    assert Ora.leak is None, Ora.leak
    return bool(files), list(Ora.seen)


def strip_line(pat):
    return pat.split(":")[0]


def ref_patterns(kind, inc, exc):
    """Reference: which globs include / exclude a file.
    find-and-fix: include = user includes (':line' suffix stripped) or the defaults; exclude = the user's
    file-level excludes (entries without ':'); when the user gives no file-level exclude the defaults apply.
    SAST: include = user includes or the registry's default includes; exclude = the user's file-level excludes only."""
    file_level_exc = [e for e in exc if ":" not in e]
    if kind == "ff":
        i = [strip_line(x) for x in inc] or list(DEFAULT_INCLUDED_PATHS)
        e = file_level_exc or list(DEFAULT_EXCLUDED_PATHS)
    else:
        i = [strip_line(x) for x in inc] or list(Reg.default_include_paths)
        e = file_level_exc
    return i, e


def _replay_concrete(kind, inc, exc, rel):
    """Real code with the real fnmatch on a concrete relative path."""
    c = CodemodExecutionContext(Path("/T"), False, False, Reg(), None, None, list(inc), list(exc), {}, 1)
    c.__dict__["files_to_analyze"] = [Path("/T") / rel]
    if kind == "ff":
        files = CoreCodemod(metadata=MD, transformer=Pipe()).get_files_to_analyze(c, None)
    else:
        rs = ResultSet()
        rs.add_result(R(rule_id="r1", locations=[L(file=Path(rel), start=LineInfo(1), end=LineInfo(1))]))
        files = _Sast(metadata=MD, transformer=Pipe(), requested_rules=["r1"]).get_files_to_analyze(c, rs)
    i, e = ref_patterns(kind, inc, exc)
    exp = any(real_fnmatch.fnmatch(rel, g) for g in i) and not any(real_fnmatch.fnmatch(rel, g) for g in e) and Path(rel).suffix == ".py"
    return bool(files), exp


def _write_replay(name, kind, inc, exc, rel):
    d = os.path.join(ROOT, "replays", "C05")
    os.makedirs(d, exist_ok=True)
    path = os.path.join(d, name + ".py")
    with open(path, "w") as f:
        f.write("import sys\nsys.path.insert(0, %r)\nfrom harness.c05 import _replay_concrete\ngot, exp = _replay_concrete(%r, %r, %r, %r)\n"
                "print('selected by the real code:', got, '| reference:', exp)\nsys.exit(1 if got != exp else 0)\n" % (ROOT, kind, inc, exc, rel))
    return path


TEMPLATES = ["*.py", "**/x/**", ".ci/**", "a?[bc].py", "x/a.py", "tests/**", "**/*.py", "x/**", "x/*", "./x/*"]


def _configs(tier_name):
    t = TEMPLATES[:5] if tier_name == "quick" else TEMPLATES
    ent = t + [x + ":3" for x in t[: (2 if tier_name == "quick" else 4)]]
    lists = [[]] + [[a] for a in ent]
    if tier_name != "quick":
        lists += [[a, b] for a in ent[:6] for b in ent[:6] if a != b]
    else:
        lists += [[ent[0], ent[5]], [ent[4], ent[1]], [ent[5], ent[6]]]
    for kind in ("ff", "sast"):
        for inc in lists:
            for exc in lists:
                yield kind, inc, exc


def structure(tier_name):
    t0 = time.time()
    n_cfg = n_vec = n_diff = n_q = 0
    zt = 0.0
    lang_cache = {}

    def lang(g):
        if g not in lang_cache:
            lang_cache[g] = glob_lang(g)
        return lang_cache[g]

    violations, samples, untranslatable = [], [], []
    for kind, inc, exc in _configs(tier_name):
        n_cfg += 1
        for sent, suffix_is_py in ((SENT_PY, True), (SENT_TXT, False)):
            _, queried = outcome(kind, inc, exc, {}, sent)
            ref_i, ref_e = ref_patterns(kind, inc, exc)
            allp = list(dict.fromkeys(queried + ref_i + ref_e))
            # more than 12 distinct patterns (the default tables): vectors with <= 2 true excludes + all include subsets
            if len(allp) > 12:
                incs = [p for p in allp if p in ref_i or p in DEFAULT_INCLUDED_PATHS or p in Reg.default_include_paths]
                excs = [p for p in allp if p not in incs]
                vecs = []
                for k in range(0, 3 if tier_name == "quick" else 4):
                    for et in itertools.combinations(excs, k):
                        for r in range(len(incs) + 1):
                            for it in itertools.combinations(incs, r):
                                vecs.append({p: True for p in et + it})
            else:
                vecs = [dict(zip(allp, bits)) for bits in itertools.product([False, True], repeat=len(allp))]
            # prune vectors whose outcome provably agrees before asking z3
            for vec in vecs:
                n_vec += 1
                got, _ = outcome(kind, inc, exc, vec, sent)
                exp = any(vec.get(g, False) for g in ref_i) and not any(vec.get(g, False) for g in ref_e) and suffix_is_py
                if got == exp:
                    continue
                n_diff += 1
                s = z3.Solver()
                s.set("timeout", 30000)
                s.add(z3.InRe(P, PATHLANG), z3.Length(P) <= 64)
                s.add(z3.InRe(P, PY_SUFFIX) if suffix_is_py else z3.Not(z3.InRe(P, PY_SUFFIX)))
                try:
                    for g in allp:
                        s.add(z3.InRe(P, lang(g)) == bool(vec.get(g, False)))
                except NotImplementedError as e:
                    untranslatable.append((g, str(e)))
                    continue
                tq = time.time()
                res = str(s.check())
                zt += time.time() - tq
                n_q += 1
                if res == "sat":
                    rel = s.model()[P].as_string()
                    g2, e2 = _replay_concrete(kind, inc, exc, rel)
                    if g2 != e2:
                        violations.append((kind, inc, exc, rel, g2, e2))
                        break
                elif res != "unsat":
                    untranslatable.append(("z3", res))
            if violations:
                break
        if len(samples) < 4:
            samples.append({"mode": kind, "include": inc, "exclude": exc, "patterns_handed_to_fnmatch": [q for q in queried][:6]})
        if violations:
            break
    rec = {
        "name": "structure:path-selection-decision-vectors",
        "engine": "E3-decision-vector+z3",
        "evaluations": n_vec,
        "distinct_nontrivial": n_cfg,
        "z3_checks": n_q,
        "z3_time_s": round(zt, 3),
        "sample": {"configurations": n_cfg, "vectors": n_vec, "differing_vectors": n_diff, "feasibility_queries": n_q, "examples": samples, "wall_s": round(time.time() - t0, 1)},
    }
    if violations:
        kind, inc, exc, rel, g2, e2 = violations[0]
        rec["verdict"] = "violation"
        rec["detail"] = "mode=%s include=%r exclude=%r path %r: selected by the real code=%r, reference=%r" % (kind, inc, exc, rel, g2, e2)
        rec["replay"] = _write_replay("structure", kind, inc, exc, rel)
    elif untranslatable:
        rec["verdict"] = "inconclusive"
        rec["detail"] = "untranslatable / unknown: %r" % untranslatable[:3]
    else:
        rec["verdict"] = "discharged"
    return [rec]


DIRS = ["test", "tests", "build", "dist", "venv", ".venv", ".tox", ".nox", ".eggs", ".git", ".mypy_cache", ".pytest_cache", ".hypothesis"]
INNER = ["__test__", "__tests__", "site-packages"]


def _prefix(s):
    return z3.Concat(z3.Re(s), symre.ALL)


def _contains(s):
    return z3.Concat(symre.ALL, z3.Re(s), symre.ALL)


def _suffix(s):
    return z3.Concat(symre.ALL, z3.Re(s))


def default_table_lemmas(tier_name):
    """z3 lemmas over all paths: (1) default selection == component-level specification; (2) a ':line' suffix
    turns an exclude entry into a non-excluding one (checked structurally above) and, for includes, 'g:n' selects
    exactly what 'g' selects; (3) translation validation of symre on the real tables."""
    recs = []
    t0 = time.time()
    samples = ["a.py", "x/a.py", "tests/a.py", "x/tests/a.py", "conftest.py", "x/conftest.py", ".coverage", ".coveragerc", "x/site-packages/y.py", "build/x.py", "a.txt", "x/__test__/a.py", "a\n.py", ".py", "x/.py", "venv/a.py", "xvenv/a.py", ".git/a.py"]
    bad = []
    for g in DEFAULT_INCLUDED_PATHS + DEFAULT_EXCLUDED_PATHS:
        bad += [(g, s_) for s_ in symre.validate(real_fnmatch.translate(g), "match", samples)]
    recs.append({"name": "validate:symre-vs-re-on-default-tables", "engine": "model-validation", "verdict": "discharged" if not bad else "harness_error", "evaluations": len(samples) * (len(DEFAULT_INCLUDED_PATHS) + len(DEFAULT_EXCLUDED_PATHS)), "distinct_nontrivial": 0, "detail": repr(bad[:3]) if bad else ""})
    sel = z3.Intersect(z3.Union(*[glob_lang(g) for g in DEFAULT_INCLUDED_PATHS]), z3.Complement(z3.Union(*[glob_lang(g) for g in DEFAULT_EXCLUDED_PATHS])))
    spec = z3.Intersect(
        _suffix(".py"),
        z3.Complement(z3.Union(*[_prefix(d + "/") for d in DIRS], *[_contains("/" + d + "/") for d in INNER], z3.Re("conftest.py"), _prefix(".coverage"))),
    )
    s = z3.Solver()
    s.set("timeout", 120000)
    s.add(z3.Length(P) <= 64, z3.InRe(P, sel) != z3.InRe(P, spec))
    tq = time.time()
    res = str(s.check())
    rec = {"name": "lemma:default-selection==component-spec", "engine": "E3-z3-regex", "evaluations": 1, "distinct_nontrivial": 1, "z3_checks": 1, "z3_time_s": round(time.time() - tq, 3),
           "sample": {"spec": "ends with .py; not under top-level %s; no /%s/ inside; not conftest.py; not .coverage*" % ("|".join(DIRS), "|".join(INNER)), "z3": res}}
    if res == "unsat":
        rec["verdict"] = "discharged"
    elif res == "sat":
        rel = s.model()[P].as_string()
        got = bool(cd.match_files(Path("/T"), [Path("/T") / rel])) if rel and not rel.startswith("/") else None
        rec["verdict"] = "violation"
        rec["detail"] = "default tables and the component-level specification disagree on path %r (real match_files selects: %r)" % (rel, got)
        rec["replay"] = _write_replay("default_tables", "ff", [], [], rel)
    else:
        rec["verdict"] = "inconclusive"
        rec["detail"] = "z3: " + res
    recs.append(rec)
    # planted: dropping one default exclude must be detected by the same query
    sel2 = z3.Intersect(z3.Union(*[glob_lang(g) for g in DEFAULT_INCLUDED_PATHS]), z3.Complement(z3.Union(*[glob_lang(g) for g in DEFAULT_EXCLUDED_PATHS if g != "**/site-packages/**"])))
    s = z3.Solver()
    s.add(z3.Length(P) <= 64, z3.InRe(P, sel2) != z3.InRe(P, spec))
    r2 = str(s.check())
    recs.append({"name": "planted:missing-site-packages-exclude", "engine": "E3-z3-regex", "verdict": "discharged" if r2 == "sat" else "inconclusive", "evaluations": 1, "distinct_nontrivial": 1, "z3_checks": 1,
                 "detail": "planted defect " + ("found: %r" % s.model()[P].as_string() if r2 == "sat" else "NOT found")})
    return recs


# ------------------------------------------------------------------ directory enumeration on a real (temporary) tree
LINK_KINDS = ["none", "file link to an in-tree file", "file link to an EXCLUDED in-tree file", "file link to a file outside the target", "directory link to an in-tree directory", "directory link to a directory outside the target"]


def _lk(i: int) -> int:
    k = 0
    while k < len(LINK_KINDS) - 1:
        if i % len(LINK_KINDS) == k:
            return k
        k += 1
    return len(LINK_KINDS) - 1


def enumeration_symlinks(k1: int, k2: int, user_exclude: bool) -> bool:
    """files_for_directory + match_files on a REAL temporary tree (created under the run's TMPDIR, removed afterwards)
    holding regular files and up to two symbolic links of symbolic kind (file / directory link, target in the tree,
    excluded, or outside the target): every regular file that the patterns select is returned; no returned path is a
    symbolic link; and no returned path resolves to a file that is excluded or lies outside the target - the write
    that follows would land there.
    post: _
    """
    import shutil
    import tempfile

    from crosshair.tracers import NoTracing
    from vlib.core import fin

    kinds = [_lk(k1), _lk(k2)]
    user_exclude = True if user_exclude else False  # decided (forked) before the concrete part
    with NoTracing():
        top = Path(tempfile.mkdtemp(prefix="c05_"))
        try:
            root, outside = top / "target", top / "outside"
            for d in (root / "pkg", root / "tests", root / "legacy", outside / "lib"):
                d.mkdir(parents=True)
            for f in (root / "pkg" / "a.py", root / "tests" / "helpers.py", root / "legacy" / "old.py", outside / "ext.py", outside / "lib" / "m.py"):
                f.write_text("x = 1\n")
            for i, k in enumerate(kinds):
                link = root / "pkg" / ("l%d.py" % i if k in (1, 2, 3) else "ld%d" % i)
                if k == 1:
                    link.symlink_to(root / "pkg" / "a.py")
                elif k == 2:
                    link.symlink_to(root / ("legacy/old.py" if user_exclude else "tests/helpers.py"))
                elif k == 3:
                    link.symlink_to(outside / "ext.py")
                elif k == 4:
                    link.symlink_to(root / "legacy", target_is_directory=True)
                elif k == 5:
                    link.symlink_to(outside / "lib", target_is_directory=True)
            exclude = ["legacy/**"] if user_exclude else None
            files = cd.files_for_directory(root)
            got = cd.match_files(root, files, exclude, None)
            rroot = root.resolve()
            # match_files semantics: a user exclude list REPLACES the default excludes
            ok = (root / "pkg" / "a.py") in got and ((root / "tests" / "helpers.py") in got) == user_exclude
            ok = ok and ((root / "legacy" / "old.py") in got) == (not user_exclude)
            for pth in got:
                real = pth.resolve()
                if pth.is_symlink() or not real.is_relative_to(rroot):
                    ok = False
                    continue
                rel = str(real.relative_to(rroot))
                if rel.startswith("legacy/" if user_exclude else "tests/"):
                    ok = False  # an excluded file reached through another name
        finally:
            shutil.rmtree(top, ignore_errors=True)
    return fin(ok)


def warmup():
    enumeration_symlinks(1, 4, True)


SPEC = {
    "property": "C05",
    "level": "model_checking",
    "files": ["src/codemodder/code_directory.py", "src/codemodder/context.py", "src/codemodder/codemods/base_codemod.py"],
    "functions": [
        "codemodder.code_directory.match_files / filter_files, DEFAULT_INCLUDED_PATHS / DEFAULT_EXCLUDED_PATHS",
        "CodemodExecutionContext.find_and_fix_paths / filter_paths / included_paths",
        "FindAndFixCodemod.get_files_to_analyze, RemediationCodemod.get_files_to_analyze",
        "fnmatch.translate output for every pattern (captured, translated by symre)",
        "codemodder.code_directory.files_for_directory + match_files on a real temporary tree with symbolic links (E1 selectors over link kinds)",
    ],
    "bounds": {
        "quick": "relative path p: z3 string, |p| <= 64, any characters but NUL, non-empty components; user configurations: include and exclude lists of length <= 1 (+3 two-element lists) over 5 glob templates, 2 of them also with a ':3' suffix, find-and-fix and SAST mode, sentinel suffix .py / other; all decision vectors (default tables: <= 2 true excludes x all include subsets)",
        "thorough": "8 templates, 4 with ':3', all two-element lists over the first 6 entries; default tables with <= 3 true excludes",
    },
    "assumptions": [
        "reference semantics: find-and-fix uses the default includes / default file-level excludes exactly when the user gives no include / no file-level exclude; SAST mode uses the registry's default includes and no default excludes; ':line' is stripped from includes and such entries never exclude a file",
        "the file literally named '.py' has an empty pathlib suffix (case split on the sentinel's suffix)",
        "symre's translation of fnmatch.translate output is validated against `re` on sample paths on every run",
    ],
    "stubs": ["fnmatch.filter in code_directory (decision vector, records patterns, leak guard)", "CodemodExecutionContext.files_to_analyze (one sentinel file)", "registry default include paths"],
    "outside": ["symlink layouts beyond two links of the 6 kinds listed (chains, loops, links created during the run)", "'every selected file with a trigger is fixed' (whole codemod runs)"],
    "rule": "evaluations = decision vectors executed through the real selection code; distinct_nontrivial = distinct (mode, include list, exclude list) configurations; solver queries = feasibility of differing vectors + table lemmas",
    "drivers": [default_table_lemmas, structure],
    "xh": [__import__("vlib.main", fromlist=["Xh"]).Xh("enumeration_symlinks", 100, 200)],
}
