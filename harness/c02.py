"""C02 — rewrites never introduce unbound names (NameError as an observable of the E2 families)."""
import tv
from tv import driver
from vlib.core import fin  # noqa: E402


def name_errors(tier_name):
    return driver.run("C02", tier_name, want_kind=tv.NAME)


def _import_block(i0, i1, use_sel, in_function, codemod):
    from harness import impfam

    # which of the bound names are used: all / none / only the first / only the second / only the last
    sel = use_sel % 5
    mask = 15 if sel == 0 else 0 if sel == 1 else 1 if sel == 2 else 2 if sel == 3 else 8
    if sel == 4:
        n_names = len(dict.fromkeys(impfam.pick(i0)[1] + impfam.pick(i1)[1]))
        mask = 1 << (n_names - 1)
    src = impfam.build(i0, i1, mask, codemod == "remove-future-imports", in_function)
    before, after, _out = impfam.run(codemod, src)
    if before[0] != "val":
        return True  # the original itself does not run
    return before == after


def import_block_order(i0: int, i1: int, use_sel: int, in_function: bool) -> bool:
    """order-imports (complete real pipeline) on a module of two import statements of symbolic kinds (plain,
    dotted, from, aliased, the same name under two bindings, parenthesised multi-line, multi-name) followed by uses
    of a symbolic subset of the bound names, at module level or inside a function: the rewritten module still binds
    every used name (no NameError) and computes the same values.
    post: _
    """
    from vlib.core import fin

    return fin(_import_block(i0, i1, use_sel, in_function, "order-imports"))


def import_block_unused(i0: int, i1: int, use_sel: int, in_function: bool) -> bool:
    """unused-imports (complete real pipeline) on the same family: no import still in use is removed.
    post: _
    """
    from vlib.core import fin

    return fin(_import_block(i0, i1, use_sel, in_function, "unused-imports"))


def import_block_future(i0: int, i1: int, use_sel: int, in_function: bool) -> bool:
    """remove-future-imports (complete real pipeline) on the same family preceded by a __future__ import.
    post: _
    """
    from vlib.core import fin

    return fin(_import_block(i0, i1, use_sel, in_function, "remove-future-imports"))


DEFAULTS = ["[]", "{}", "[1]", "set()"]


def mutable_params(default: int, stub_annotated: bool, impl_annotated: bool, has_stub: bool, has_optional: bool, second_fn: bool) -> bool:
    """fix-mutable-params (complete real pipeline; it introduces `typing.Optional`) on a module made of an optional
    @overload stub and an implementation whose parameter has a mutable default, annotated or not, with or without an
    existing `Optional` import and a second function: the rewritten module parses and executes without reading an
    unbound name (every name the edit starts using is imported by the same edit).
    post: _
    """
    from crosshair.tracers import NoTracing

    from harness import impfam
    from vlib.core import fin

    i = 0
    while i < 3:
        if default % 4 == i:
            break
        i += 1
    d = DEFAULTS[i]
    head = "from typing import overload\n" + ("from typing import Optional\n" if has_optional else "")
    body = ""
    if has_stub:
        body += "@overload\ndef f(a%s = %s) -> int: ...\n" % (": list" if stub_annotated else "", d)
    body += "def f(a%s = %s):\n    return len(a)\n" % (": list" if impl_annotated else "", d)
    if second_fn:
        body += "def g(b = %s):\n    return b\n" % d
    src = head + body + "r = f()\n"
    with NoTracing():
        before, after, out = impfam.run("fix-mutable-params", src)
    if before[0] != "val":
        return fin(True)
    return fin(after[0] == "val")


def _sast_resolved(names, which: int, style: int, args: int, decoy: int, layout: int) -> bool:
    from harness import hardsast

    return hardsast.check_kind(hardsast.sel(names, which), style, args, decoy, layout, "unresolved") is None


def sast_family_resolved_a(which: int, style: int, args: int, decoy: int, layout: int) -> bool:
    """Detector-driven hardening family (harness/hardsast.py; one result placed on the call; 4 import styles x argument
    lists x an identical unreported call / an unrelated call x layouts incl. function bodies): with unresolved(.)
    computed from CPython's own symbol tables (scope-aware: read, bound neither in an enclosing scope, at module level
    nor as a builtin), unresolved(run_K(P)) is a subset of unresolved(P) - every module the rewrite starts using is
    imported, no import a remaining (unreported) call still uses is removed.
    Codemods: add-requests-timeouts, django-json-response-type, enable-jinja2-autoescape, harden-pyyaml, harden-ruamel,
    jwt-decode-verify, limit-readline, requests-verify.
    post: _
    """
    from harness.hardsast import SAST_A, SAST_B

    return fin(_sast_resolved(SAST_A + SAST_B[:3], which, style, args, decoy, layout))


def sast_family_resolved_b(which: int, style: int, args: int, decoy: int, layout: int) -> bool:
    """Same: safe-lxml-parser-defaults, safe-lxml-parsing, sandbox-process-creation, secure-flask-cookie.
    post: _
    """
    from harness.hardsast import SAST_B, SAST_C

    return fin(_sast_resolved(SAST_B[3:] + SAST_C[:2], which, style, args, decoy, layout))


def sast_family_resolved_c(which: int, style: int, args: int, decoy: int, layout: int) -> bool:
    """Same: secure-random, upgrade-sslcontext-tls, url-sandbox, fix-deprecated-logging-warn (the import-swapping ones).
    post: _
    """
    from harness.hardsast import SAST_C, SAST_D

    return fin(_sast_resolved(SAST_C[2:] + SAST_D, which, style, args, decoy, layout))


def sast_family_resolved_d(which: int, style: int, args: int, decoy: int, layout: int) -> bool:
    """Same oracle over the detector-less entries of the family: fix-math-isclose, timezone-aware-datetime (utcnow,
    utcfromtimestamp), secure-tempfile - including the surroundings in which the module the rewrite needs is imported
    only inside an unrelated function.
    post: _
    """
    from harness.hardsast import DETECTORLESS

    return fin(_sast_resolved(DETECTORLESS, which, style, args, decoy, layout))


def mktemp_chained_assignment(style: int, scope: int, n_targets: int) -> bool:
    """secure-tempfile (complete real pipeline) on `a = tempfile.mktemp()` / `a = b = tempfile.mktemp()` /
    `a = b = c = ...` under 4 import styles, at module level or in a function, every target read afterwards: no name
    becomes unresolved (each target is still bound after the rewrite, or the statement is left alone).
    pre: 1 <= n_targets <= 3
    post: _
    """
    from crosshair.tracers import NoTracing

    from harness import hardsast
    from tv import driver

    imp, callee = hardsast.sel([("import tempfile", "tempfile.mktemp"), ("import tempfile as al", "al.mktemp"), ("from tempfile import mktemp", "mktemp"), ("from tempfile import mktemp as G", "G")], style)
    names = ["a", "b", "c"][: (1 if n_targets == 1 else (2 if n_targets == 2 else 3))]
    stmt = " = ".join(names) + " = %s()" % callee
    use = "print(%s)" % ", ".join(names)
    if scope % 2 == 1:
        src = "%s\n\ndef fn():\n    %s\n    %s\n" % (imp, stmt, use)
    else:
        src = "%s\n\n%s\n%s\n" % (imp, stmt, use)
    with NoTracing():
        out, _ = driver.run_pipeline(hardsast._reg()["pixee:python/secure-tempfile"], src)
        try:
            compile(out, "m.py", "exec")
        except SyntaxError:
            return False
        ok = not (hardsast.unresolved(out) - hardsast.unresolved(src))
    return fin(ok)


def warmup():
    mutable_params(0, True, False, True, False, False)
    import_block_order(7, 0, 0, False)
    import_block_unused(8, 2, 2, True)
    import_block_future(0, 4, 0, False)
    from harness import hardsast

    for _n in hardsast.ORDER:
        hardsast.check(_n, 1, 1, 1, 1)


SPEC = {
    "property": "C02",
    "level": "translation_validation",
    "files": ["src/core_codemods/invert_boolean_check.py", "src/core_codemods/combine_calls_base.py", "src/core_codemods/combine_startswith_endswith.py", "src/core_codemods/combine_isinstance_issubclass.py"],
    "functions": ["the complete real pipeline of invert-boolean-check, combine-startswith-endswith, combine-isinstance-issubclass (see C08)", "the complete real pipeline of fix-mutable-params (AddImportsVisitor) on selector-built function definitions", "the complete real pipelines of order-imports, unused-imports and remove-future-imports (codemodder.codemods.transformations.clean_imports / remove_unused_imports) on selector-built import blocks", "detector-driven hardening family: the complete real transformer chains of 16 semgrep-detected codemods (add_needed_import / remove_unused_import / update_call_target / NameResolutionMixin) with one result placed on the call; unresolved-name oracle from symtable"],
    "bounds": {"quick": "the C08 quick grammar", "thorough": "the C08 thorough grammar"},
    "assumptions": [
        "binding environment fixed by the ORIGINAL program: every name it reads is bound, every other name is unbound; z3 searches runtime values for which the rewritten program evaluates an unbound name (raises NameError) while the original does not",
        "a fresh name in a branch no value assignment reaches is not reported (never a false alarm)",
    ],
    "stubs": ["FileContext with a non-existent path"],
    "outside": ["import insertion by codemods outside the families listed under functions", "RemoveUnusedVariables, sql-parameterization clean-up", "class scopes, nested functions deeper than one level"],
    "rule": "as C08; the query is restricted to outcome kind NameError",
    "drivers": [name_errors],
    "xh": [__import__("vlib.main", fromlist=["Xh"]).Xh(fn, 500, 900) for fn in ("import_block_order", "import_block_unused", "import_block_future")] + [__import__("vlib.main", fromlist=["Xh"]).Xh("mutable_params", 300, 600)] + [__import__("vlib.main", fromlist=["Xh"]).Xh(fn, 500, 900) for fn in ("sast_family_resolved_a", "sast_family_resolved_b", "sast_family_resolved_c", "sast_family_resolved_d")] + [__import__("vlib.main", fromlist=["Xh"]).Xh("mktemp_chained_assignment", 100, 200)],
}
