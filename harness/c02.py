"""C02 — rewrites never introduce unbound names (NameError as an observable of the E2 families)."""
import tv
from tv import driver


def name_errors(tier_name):
    return driver.run("C02", tier_name, want_kind=tv.NAME)


SPEC = {
    "property": "C02",
    "level": "translation_validation",
    "files": ["src/core_codemods/invert_boolean_check.py", "src/core_codemods/combine_calls_base.py", "src/core_codemods/combine_startswith_endswith.py", "src/core_codemods/combine_isinstance_issubclass.py"],
    "functions": ["the complete real pipeline of invert-boolean-check, combine-startswith-endswith, combine-isinstance-issubclass (see C08)"],
    "bounds": {"quick": "the C08 quick grammar", "thorough": "the C08 thorough grammar"},
    "assumptions": [
        "binding environment fixed by the ORIGINAL program: every name it reads is bound, every other name is unbound; z3 searches runtime values for which the rewritten program evaluates an unbound name (raises NameError) while the original does not",
        "a fresh name in a branch no value assignment reaches is not reported (never a false alarm)",
    ],
    "stubs": ["FileContext with a non-existent path"],
    "outside": ["import insertion / removal (AddImportsVisitor, RemoveImportsVisitor, NameResolutionMixin)", "RemoveUnusedVariables, sql-parameterization clean-up", "function / class scopes (need whole-transformer runs with scope metadata; nothing symbolic remains once the program is concrete)"],
    "rule": "as C08; the query is restricted to outcome kind NameError",
    "drivers": [name_errors],
    "xh": [],
}
