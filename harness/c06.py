"""C06 — SAST-driven fixes land exactly on the reported findings and carry them.

Location matching is integer arithmetic over (line, column) ranges: node positions and finding locations are
unbounded symbolic ints; the real match_location / same_line / fuzzy_column_match / filter_by_result /
node_is_selected / get_findings_for_location / _process_file are executed.
"""
from pathlib import Path
from typing import List, Tuple

import libcst as cst
from libcst._position import CodePosition, CodeRange

import codemodder.codemods.base_codemod as bc
from codemodder.codemods.base_codemod import Metadata, RemediationCodemod, ReviewGuidance
from codemodder.codemods.base_visitor import UtilsMixin
from codemodder.codetf import Finding, Rule
from codemodder.file_context import FileContext
from codemodder.result import LineInfo, Location, Result, ResultSet, fuzzy_column_match, same_line
from core_codemods.defectdojo.results import DefectDojoResult
from core_codemods.jwt_decode_verify import JwtDecodeVerifySASTTransformer
from core_codemods.sonar.results import SonarResult
from core_codemods.tempfile_mktemp import TempfileMktempTransformer
from vlib.core import NoLog, fin
from vlib.main import Xh
from vlib.stubs import FakePath

bc.logger = NoLog()
Rng = Tuple[int, int, int, int]  # start line, start column, end line, end column
F = Finding(id="F", rule=Rule(id="r", name="r", url=None))


class L(Location):
    pass


class R(Result):
    def __hash__(self):
        return id(self)


def _pos(r: Rng) -> CodeRange:
    return CodeRange(start=CodePosition(r[0], r[1]), end=CodePosition(r[2], r[3]))


def _loc(r: Rng) -> Location:
    return L(file=Path("f.py"), start=LineInfo(r[0], r[1]), end=LineInfo(r[2], r[3]))


CALL = cst.parse_expression("f(x)")
TUPLE = cst.parse_expression("(a, b)")


def generic_sound_complete(node: Rng, finding: Rng) -> bool:
    """Result.match_location (Semgrep / CodeQL / generic SARIF): a match implies the finding starts and ends on
    the node's lines with both columns within one of the node's; a finding reported exactly on the node in the
    tool's 1-based or in 0-based columns does match.
    post: _
    """
    res = R(rule_id="r", locations=[_loc(finding)])
    got = res.match_location(_pos(node), CALL)
    sl, sc, el, ec = node
    fl, fc, fel, fec = finding
    sound = (not got) or (sl == fl and el == fel and 0 <= fc - sc <= 1 and 0 <= fec - ec <= 1)
    exact = sl == fl and el == fel and ((fc == sc + 1 and fec == ec + 1) or (fc == sc and fec == ec))
    complete = (not exact) or got
    return fin(sound and complete)


def generic_separation(a: Rng, b: Rng) -> bool:
    """Separation: a finding reported exactly on node A (1-based columns) never selects a different node B that
    lies on the same lines but differs from A by >= 2 columns at the start or at the end (the tree invariant
    checked concretely on the sample corpus), nor any node on other lines.
    pre: (a[0] != b[0] or a[2] != b[2]) or abs(a[1] - b[1]) >= 2 or abs(a[3] - b[3]) >= 2
    post: _
    """
    res = R(rule_id="r", locations=[_loc((a[0], a[1] + 1, a[2], a[3] + 1))])
    return fin(res.match_location(_pos(a), CALL) and not res.match_location(_pos(b), CALL))


def sonar_tuple_widening(node: Rng, finding: Rng, is_tuple: bool) -> bool:
    """SonarResult.match_location: for a tuple node Sonar reports the range without the parentheses, so the
    node's range is narrowed by one column on each side before the generic test; other nodes are not widened.
    post: _
    """
    res = SonarResult(finding_id="k", rule_id="r", locations=[_loc(finding)])
    got = res.match_location(_pos(node), TUPLE if is_tuple else CALL)
    sl, sc, el, ec = node
    if is_tuple:
        sc, ec = sc - 1, ec + 1
    ref = R(rule_id="r", locations=[_loc(finding)]).match_location(_pos((sl, sc, el, ec)), CALL)
    return fin(got == ref)


def defectdojo_line_only(node: Rng, line: int) -> bool:
    """DefectDojoResult.match_location: matches iff the reported line lies within the node's line range.
    post: _
    """
    res = DefectDojoResult(finding_id=1, rule_id="r", locations=[_loc((line, -1, line, -1))])
    return fin(res.match_location(_pos(node), CALL) == (node[0] <= line <= node[2]))


def defectdojo_selection_multiline(first: int, span: int, off: int) -> bool:
    """UtilsMixin.node_is_selected (results_for_node -> the result's OWN match_location) for a DefectDojo finding - one
    line, no columns - and a call that starts on one of 3 lines and spans 1-3 lines: the node is selected iff the
    reported line is ANY line of the node, also a continuation line (line numbers are concrete picks, so that code
    which hashes or indexes them stays inside the model).
    post: _
    """
    start = 3 if first % 3 == 0 else (7 if first % 3 == 1 else 40)
    length = 1 if span % 3 == 0 else (2 if span % 3 == 1 else 3)
    delta = -1 if off % 5 == 0 else (0 if off % 5 == 1 else (1 if off % 5 == 2 else (2 if off % 5 == 3 else 3)))
    end = start + length - 1
    line = start + delta

    class _DD(DefectDojoResult):
        def __hash__(self):
            return id(self)

    node = cst.parse_expression("f(x)")
    res = _DD(finding_id=1, rule_id="r", locations=[_loc((line, -1, line, -1))])
    m = _Mixin([res], [], [], {id(node): _pos((start, 4, end, 9))})
    UtilsMixin.results_for_node.cache_clear()
    return fin(m.node_is_selected(node) == (start <= line <= end))


def jwt_and_tempfile(node: Rng, finding: Rng) -> bool:
    """JwtDecodeVerifySASTTransformer.match_location (finding inside the call, same lines) and
    TempfileMktempTransformer.match_location (same lines): match implies same start and end line; jwt: both
    finding columns inside [start column, end column + 1].
    post: _
    """
    res = R(rule_id="r", locations=[_loc(finding)])
    pos = _pos(node)
    g1 = JwtDecodeVerifySASTTransformer.match_location(None, pos, res)
    g2 = TempfileMktempTransformer.match_location(None, pos, res)
    lines = node[0] == finding[0] and node[2] == finding[2]
    inside = node[1] <= finding[1] <= node[3] + 1 and node[1] <= finding[3] <= node[3] + 1
    return fin(g1 == (lines and inside) and g2 == lines and same_line(pos, res.locations[0]) == lines and fuzzy_column_match(pos, res.locations[0]) == inside)


class _Mixin(UtilsMixin):
    """UtilsMixin with node_position answering from a table (PositionProvider needs a parsed module)."""

    def __init__(self, results, line_exclude, line_include, positions):
        self.results = results
        self.line_exclude = line_exclude
        self.line_include = line_include
        self._positions = positions

    def node_position(self, node):
        return self._positions[id(node)]

    def __hash__(self):
        return id(self)


def node_selection(a: Rng, b: Rng, on_a: bool, on_b: bool, results_none: bool) -> bool:
    """UtilsMixin.filter_by_result / node_is_selected over two candidate nodes and the subset of them that the
    tool reported: exactly the reported nodes are selected (all nodes when the codemod has no detector).
    pre: (a[0] != b[0] or a[2] != b[2]) or abs(a[1] - b[1]) >= 2 or abs(a[3] - b[3]) >= 2
    post: _
    """
    na, nb = cst.parse_expression("f(x)"), cst.parse_expression("g(y)")
    results = []
    if on_a:
        results.append(R(rule_id="r", locations=[_loc((a[0], a[1] + 1, a[2], a[3] + 1))]))
    if on_b:
        results.append(R(rule_id="r", locations=[_loc((b[0], b[1] + 1, b[2], b[3] + 1))]))
    m = _Mixin(None if results_none else results, [], [], {id(na): _pos(a), id(nb): _pos(b)})
    UtilsMixin.results_for_node.cache_clear()
    sa, sb = m.node_is_selected(na), m.node_is_selected(nb)
    if results_none:
        return fin(sa and sb)
    return fin(sa == on_a and sb == on_b)


def findings_for_line(line: int, spans: List[Tuple[int, int]]) -> bool:
    """FileContext.get_findings_for_location: exactly the findings whose line range covers the line, in order.
    pre: len(spans) <= 3
    post: _
    """
    results = []
    for i, (s, e) in enumerate(spans):
        results.append(R(rule_id="r", locations=[_loc((s, 0, e, 0))], finding=Finding(id="F%d" % i, rule=Rule(id="r", name="r", url=None))))
    fc = FileContext(Path("/d"), Path("/d/f.py"), [], [], results)
    got = [f.id for f in fc.get_findings_for_location(line)]
    exp = ["F%d" % i for i, (s, e) in enumerate(spans) if s <= line <= e]
    return fin(got == exp and [f.id for f in fc.get_all_findings()] == ["F%d" % i for i in range(len(spans))])


class _Remediation(RemediationCodemod):
    @property
    def origin(self):
        return "verif"

    @property
    def docs_module_path(self):
        return "verif"


class _Ctx:
    directory = Path("/d")
    path_include = []
    path_exclude = []
    dry_run = False


def process_file_short_circuit(own_rule: bool, own_file: bool, n: int, other_rule: bool, other_file: bool) -> bool:
    """BaseCodemod._process_file for a SAST codemod: the transformer pipeline sees the file iff the result set has
    a finding for the codemod's own rule in that file, and then receives exactly those findings; findings of other
    rules or other files (decoys) never reach it.
    pre: 0 <= n <= 2
    post: _
    """
    rs = ResultSet()
    for i in range(n):
        rs.add_result(R(rule_id="mine" if own_rule else "theirs", locations=[L(file=Path("f.py") if own_file else Path("g.py"), start=LineInfo(i + 1, 0), end=LineInfo(i + 1, 0))], finding=Finding(id="F%d" % i, rule=Rule(id="x", name="x", url=None))))
    if other_rule:
        rs.add_result(R(rule_id="theirs", locations=[L(file=Path("f.py"), start=LineInfo(9, 0), end=LineInfo(9, 0))], finding=Finding(id="decoy-rule", rule=Rule(id="x", name="x", url=None))))
    if other_file:
        rs.add_result(R(rule_id="mine", locations=[L(file=Path("g2.py"), start=LineInfo(9, 0), end=LineInfo(9, 0))], finding=Finding(id="decoy-file", rule=Rule(id="x", name="x", url=None))))
    calls = []

    class Pipe:
        def apply(self, context, file_context, results):
            calls.append([r.finding.id for r in results])
            return None

    cmod = _Remediation(metadata=Metadata(name="n", summary="s", review_guidance=ReviewGuidance.MERGE_WITHOUT_REVIEW, description="d"), transformer=Pipe(), requested_rules=["mine"])
    fp = FakePath(b"x = 1\n", rel="f.py")
    fc = cmod._process_file(fp, _Ctx, rs, ["mine"])
    exp = ["F%d" % i for i in range(n)] if (own_rule and own_file and n > 0) else None
    if exp is None:
        return fin(calls == [] and fc.changesets == [] and fc.failures == [])
    return fin(calls == [exp] and [r.finding.id for r in fc.results] == exp)


class PyChange:
    """Pure-Python stand-in for codetf.Change inside libcst_transformer (pydantic-core rejects symbolic ints)."""

    def __init__(self, lineNumber, description, findings=None, **kw):
        if lineNumber < 1:
            raise ValueError("lineNumber must be greater than 0")
        self.lineNumber, self.description, self.findings = lineNumber, description, findings


class _StubTransformer:
    change_description = "d"

    def __init__(self, fc, positions):
        self.file_context = fc
        self._positions = positions

    def node_position(self, node):
        return self._positions[id(node)]


def change_carries_site_findings(a: Rng, b: Rng, on_a: bool, on_b: bool) -> bool:
    """LibcstResultTransformer.report_change: the change entry written for a rewritten site A names A's start line
    and carries the finding reported for A; it carries the finding of another reported site B only in the recorded
    known case that B's finding covers A's start line (change entries are attached per line).
    pre: a[0] >= 1 and b[0] >= 1 and a[0] <= a[2] and b[0] <= b[2]
    post: _
    """
    import codemodder.codemods.libcst_transformer as lt
    from vlib.core import known_active

    lt.Change = PyChange
    na, nb = cst.parse_expression("f(x)"), cst.parse_expression("g(y)")
    results = []
    if on_a:
        results.append(R(rule_id="r", locations=[_loc((a[0], a[1] + 1, a[2], a[3] + 1))], finding=Finding(id="FA", rule=Rule(id="r", name="r", url=None))))
    if on_b:
        results.append(R(rule_id="r", locations=[_loc((b[0], b[1] + 1, b[2], b[3] + 1))], finding=Finding(id="FB", rule=Rule(id="r", name="r", url=None))))
    fc = FileContext(Path("/d"), Path("/d/f.py"), [], [], results)
    t = _StubTransformer(fc, {id(na): _pos(a), id(nb): _pos(b)})
    t.lineno_for_node = lambda node: lt.LibcstResultTransformer.lineno_for_node(t, node)
    t.report_change_for_line = lambda *aa, **kw: lt.LibcstResultTransformer.report_change_for_line(t, *aa, **kw)
    lt.LibcstResultTransformer.report_change(t, na)
    (chg,) = fc.codemod_changes
    ids = [f.id for f in chg.findings]
    ok = chg.lineNumber == a[0]
    if on_a:
        ok = ok and "FA" in ids
    if "FB" in ids:
        b_covers_a_line = on_b and b[0] <= a[0] <= b[2]
        ok = ok and b_covers_a_line and known_active("C06/change-findings-attached-per-line")
    return fin(ok)


def planted_loose_match(node: Rng, finding: Rng) -> bool:
    """Self-test: a matcher that compares start lines only must be refuted by the soundness oracle.
    post: _
    """
    got = node[0] == finding[0]
    sl, sc, el, ec = node
    fl, fc, fel, fec = finding
    return (not got) or (sl == fl and el == fel and 0 <= fc - sc <= 1 and 0 <= fec - ec <= 1)


def corpus_separation_invariant(tier_name):
    """Concrete check of the tree invariant assumed by generic_separation / node_selection: in every sample module,
    two distinct Call/Assign/ClassDef nodes that share start and end lines differ by >= 2 columns at the start or
    at the end."""
    import glob
    import os

    from libcst.metadata import MetadataWrapper, PositionProvider

    files = sorted(glob.glob("/repo/tests/samples/**/*.py", recursive=True)) + sorted(glob.glob("/repo/src/**/*.py", recursive=True))
    n_files = n_pairs = 0
    bad = []

    class V(cst.CSTVisitor):
        METADATA_DEPENDENCIES = (PositionProvider,)

        def __init__(self):
            self.by_lines = {}

        def _add(self, node):
            p = self.get_metadata(PositionProvider, node)
            self.by_lines.setdefault((p.start.line, p.end.line), []).append((p.start.column, p.end.column, type(node).__name__))

        def visit_Call(self, node):
            self._add(node)

        def visit_Assign(self, node):
            self._add(node)

        def visit_ClassDef(self, node):
            self._add(node)

    for f in files:
        try:
            mod = cst.parse_module(open(f, "rb").read())
        except Exception:
            continue
        n_files += 1
        v = V()
        MetadataWrapper(mod).visit(v)
        for key, lst in v.by_lines.items():
            for i in range(len(lst)):
                for j in range(i + 1, len(lst)):
                    n_pairs += 1
                    if abs(lst[i][0] - lst[j][0]) < 2 and abs(lst[i][1] - lst[j][1]) < 2:
                        bad.append((os.path.basename(f), key, lst[i], lst[j]))
    return [{
        "name": "assumption:separation-invariant-on-sample-corpus",
        "engine": "model-validation",
        "verdict": "discharged" if not bad else "inconclusive",
        "evaluations": n_pairs,
        "distinct_nontrivial": 0,
        "detail": ("near pairs: %r" % bad[:3]) if bad else "",
        "sample": {"files": n_files, "same_line_pairs": n_pairs, "near_pairs": len(bad)},
    }]


def whole_sast_transformers(tier_name):
    """E3 cells: complete real SAST transformers with a symbolic finding location (see harness/c06w.py)."""
    import os

    from harness import c06w
    from vlib.core import ROOT, known_active

    KEY = "C06/finding-on-enclosing-statement-dispatched-to-call-handler"
    recs = []
    for entry in c06w.FAMILY + (c06w.MORE if tier_name == "thorough" else []):
        cid = entry[0]
        rec = {"name": "whole:" + cid, "engine": "E3-cells+z3"}
        try:
            done, atoms, runs, queries, fixpoint, sites = c06w.explore(entry)
        except c06w.symint.Leak as e:
            rec.update(verdict="inconclusive", detail="the transformer uses the location other than by comparison: %s" % e, evaluations=0, distinct_nontrivial=0)
            recs.append(rec)
            continue
        bad = {k: v for k, v in done.items() if v}
        known = {k: v for k, v in bad.items() if v.startswith("KNOWN:") and known_active(KEY)}
        viol = {k: v for k, v in bad.items() if k not in known}
        rec.update(evaluations=runs, distinct_nontrivial=len(done), z3_checks=queries,
                   sample={"sites": sites, "cells": len(done), "comparisons_made_by_the_code": len(atoms), "fixpoint": fixpoint, "cells_matching_the_known_finding": len(known)})
        if viol:
            k = sorted(viol)[0]
            d = os.path.join(ROOT, "replays", "C06")
            os.makedirs(d, exist_ok=True)
            path = os.path.join(d, "whole_%s.py" % cid.replace(":", "_").replace("/", "_"))
            with open(path, "w") as f:
                f.write("import sys\nsys.path.insert(0, %r)\nfrom harness import c06w\nfrom vlib import symint\nentry = [e for e in c06w.FAMILY if e[0] == %r][0]\n"
                        "done, *_ = c06w.explore(entry)\nbad = {k: v for k, v in done.items() if v and not v.startswith('KNOWN:')}\nprint(sorted(bad.values())[:3])\nsys.exit(1 if bad else 0)\n" % (ROOT, cid))
            rec.update(verdict="violation", replay=path, detail="%s: %s" % (cid, viol[k]))
        elif not fixpoint:
            rec.update(verdict="inconclusive", detail="cell refinement did not reach a fixpoint")
        else:
            rec["verdict"] = "discharged"
        recs.append(rec)
        if known:
            recs.append({"name": "known:%s:%s" % (KEY, cid), "engine": "E3-cells+z3", "verdict": "known", "evaluations": len(known), "distinct_nontrivial": len(known),
                         "detail": "%s :: %s: %d cells, e.g. %s" % (KEY, cid, len(known), sorted(known.values())[0][6:])})
    return recs


URIS = ["a.py", "./a.py", ".ci/a.py", "ci/a.py", "../a.py", ".a.py", "d/.e/a.py"]


def _pick(pool, i):
    k = 0
    while k < len(pool) - 1:
        if i % len(pool) == k:
            return pool[k]
        k += 1
    return pool[len(pool) - 1]


def sarif_uri_file_identity(codeql: bool, u: int, c: int) -> bool:
    """A SARIF result is attributed to exactly the file its artifact URI names: through the real Semgrep / CodeQL
    readers and ResultSet.results_for_rule_and_file, a finding whose URI is one of 7 spellings (plain, ./-prefixed,
    dot-directory, parent directory, dot-file, nested dot-directory) is returned for a candidate file of the analysed
    tree iff the candidate IS that path - never for `ci/a.py` when the finding is on `.ci/a.py`.
    post: _
    """
    import codemodder.codeql as codeql_mod
    import codemodder.semgrep as semgrep_mod
    from vlib import vfs

    uri, cand = _pick(URIS, u), _pick(URIS, c)
    region = {"startLine": 3, "startColumn": 1, "endLine": 3, "endColumn": 9}
    res = {"ruleId": "r1", "message": {"text": "m"}, "locations": [{"physicalLocation": {"artifactLocation": {"uri": uri}, "region": region}}]}
    name = "CodeQL" if codeql else "Semgrep OSS"
    data = {"runs": [{"tool": {"driver": {"name": name, "rules": []}}, "results": [res]}]}
    vfs.json_file("/s/x.sarif", data)
    rs = (codeql_mod.CodeQLResultSet if codeql else semgrep_mod.SemgrepResultSet).from_sarif("/s/x.sarif")
    ctx = type("Ctx", (), {"directory": Path("/d")})()
    got = rs.results_for_rule_and_file(ctx, "r1", Path("/d") / cand)
    files = rs.files_for_rule("r1")
    same = Path(uri) == Path(cand)
    return fin(files == [Path(uri)] and (len(got) == 1) == same and len(got) <= 1)


def warmup():
    generic_sound_complete((1, 0, 1, 4), (1, 1, 1, 5))
    generic_separation((1, 0, 1, 4), (1, 2, 1, 4))
    sonar_tuple_widening((1, 0, 1, 6), (1, 1, 1, 5), True)
    defectdojo_line_only((1, 0, 3, 4), 2)
    defectdojo_selection_multiline(1, 2, 3)
    jwt_and_tempfile((1, 0, 1, 9), (1, 3, 1, 6))
    node_selection((1, 0, 1, 4), (1, 6, 1, 10), True, False, False)
    findings_for_line(2, [(1, 2), (3, 3)])
    process_file_short_circuit(True, True, 2, True, True)
    process_file_short_circuit(False, True, 1, False, True)
    change_carries_site_findings((1, 0, 1, 4), (2, 0, 2, 4), True, True)
    sarif_uri_file_identity(False, 2, 3)
    sarif_uri_file_identity(True, 1, 0)


SPEC = {
    "property": "C06",
    "level": "model_checking",
    "files": [
        "src/codemodder/result.py",
        "src/codemodder/codemods/base_visitor.py",
        "src/codemodder/codemods/base_codemod.py",
        "src/codemodder/file_context.py",
        "src/core_codemods/sonar/results.py",
        "src/core_codemods/defectdojo/results.py",
        "src/core_codemods/jwt_decode_verify.py",
        "src/core_codemods/tempfile_mktemp.py",
    ],
    "functions": [
        "codemodder.result.Result.match_location / same_line / fuzzy_column_match",
        "core_codemods.sonar.results.SonarResult.match_location",
        "core_codemods.defectdojo.results.DefectDojoResult.match_location",
        "JwtDecodeVerifySASTTransformer.match_location, TempfileMktempTransformer.match_location",
        "UtilsMixin.filter_by_result / results_for_node / node_is_selected / filter_by_path_includes_or_excludes",
        "FileContext.get_findings_for_location / get_all_findings",
        "BaseCodemod._process_file, ResultSet.results_for_rule_and_file",
        "SemgrepLocation.from_sarif / CodeQLLocation.from_sarif -> ResultSet.add_result / results_for_rule_and_file / files_for_rule (artifact URI = file identity)",
        "LibcstResultTransformer.report_change / report_change_for_line / lineno_for_node",
        "whole-transformer family: the complete real transformers of sonar:python/secure-random, semgrep:python/harden-pyyaml, defectdojo:python/avoid-insecure-deserialization with a symbolic finding location (native runs, one per z3-enumerated cell)",
    ],
    "bounds": {
        "quick": "node and finding ranges: 4 unbounded symbolic ints each; two candidate nodes x reported subset; <= 3 findings with symbolic line ranges; <= 2 own findings + foreign-rule and foreign-file decoys; artifact URI and candidate file: 7 x 7 path spellings x {Semgrep, CodeQL}",
        "thorough": "same (integer space is unbounded; structure bounds as quick)",
    },
    "assumptions": [
        "tree invariant: two distinct selectable nodes sharing start and end lines differ by >= 2 columns at one end (checked concretely over tests/samples and src/ on every run)",
        "node_position is answered from a table (libcst's PositionProvider is trusted)",
        "closed / resolved / reviewed Sonar entries are dropped by the reader: decided under C12 (sonar_reader)",
    ],
    "stubs": ["node_position", "transformer pipeline (records what it is handed)", "file (FakePath)", "logger"],
    "outside": ["'k of n sites rewritten' for SAST codemods other than the three in the whole-transformer family, and for more than one symbolic finding", "SARIF/JSON decoding (C12)", "per-codemod transformers that bypass node_is_selected", "two reported sites on the same physical line: change entries are attached per line (see known findings)"],
    "drivers": [corpus_separation_invariant, whole_sast_transformers],
    "xh": [
        Xh("generic_sound_complete", 120, 300),
        Xh("generic_separation", 120, 300),
        Xh("sonar_tuple_widening", 120, 300),
        Xh("defectdojo_line_only", 60, 200),
        Xh("defectdojo_selection_multiline", 60, 200),
        Xh("jwt_and_tempfile", 120, 300),
        Xh("node_selection", 150, 400),
        Xh("findings_for_line", 120, 300),
        Xh("process_file_short_circuit", 150, 400),
        Xh("change_carries_site_findings", 150, 400),
        Xh("sarif_uri_file_identity", 120, 300),
        Xh("planted_loose_match", 60, 120, twin=False, expect="refuted"),
    ],
}
