"""Hardening family, detector-driven codemods (C16, by-products for C01/C02): selector-built modules through the
complete real transformer chain of the pixee codemods whose detector is semgrep.  semgrep is absent from this image, so
the detector is replaced by its contract: ONE result placed exactly on the vulnerable expression (SARIF convention,
1-based columns) - the assumption is recorded in the evidence.

Oracle = C16's statement, token by token: with tokens(.) the multiset of NAME / NUMBER / STRING tokens (strings by
value, so a quote-style change is not a difference), tokens(P) - tokens(P') and tokens(P') - tokens(P) must lie inside
the codemod's documented delta; the original arguments of the hardened call are kept in order (apart from the
documented argument edit); every statement other than the target and the import block is textually unchanged - in
particular an identical call elsewhere in the file that the detector did NOT report; the output parses; and no name
becomes unresolved (C02)."""
import ast
import io
import symtable
import tokenize
from collections import Counter
from pathlib import Path

import libcst as cst
from crosshair.tracers import NoTracing
from libcst.metadata import MetadataWrapper, PositionProvider

from codemodder.codetf import Finding, Rule
from codemodder.file_context import FileContext
from codemodder.result import LineInfo, Location, Result

_REG = None


def _reg():
    global _REG
    if _REG is None:
        from codemodder.registry import load_registered_codemods

        _REG = {c.id: c for c in load_registered_codemods().codemods}
    return _REG


class _L(Location):
    pass


class _R(Result):
    def __hash__(self):
        return id(self)


def C(**kw):
    return Counter(kw)


#  Each entry: codemod, module, function (None: method on a prepared object), prelude lines, argument pool,
#  documented argument edits (old text -> new text), arguments the codemod may append, documented callee rewrite
#  (function of the spelled callee), upper bounds of the token delta (added, removed).
#  The deltas are transcribed from the codemods' documentation (src/core_codemods/docs/*.md), not from their output.
TABLE = {
    "requests-verify": dict(
        mod="requests", fn="get", pool=["u, verify=False", "u, verify=False, timeout=3", "u, h(v, verify=False), verify=False, **k", "*a, verify=False"],
        edits=[("verify=False", "verify=True")], appended=[], added=C(**{"True": 1}), removed=C(**{"False": 1}),
    ),
    "add-requests-timeouts": dict(
        mod="requests", fn="get", pool=["u", "u, verify=False", "u, h(v), **k", "*a, headers=h"],
        edits=[], appended=["timeout=60"], added=C(timeout=1, **{"60": 1}), removed=C(),
    ),
    "harden-pyyaml": dict(
        needs='import yaml',
        mod="yaml", fn="load", pool=["d", "d, {M}.Loader", "d, Loader={M}.Loader", "h(d), Loader={M}.UnsafeLoader"],
        edits=[("{M}.Loader", "{M}.SafeLoader"), ("Loader={M}.Loader", "Loader={M}.SafeLoader"), ("Loader={M}.UnsafeLoader", "Loader={M}.SafeLoader")],
        appended=["Loader={M}.SafeLoader"], added=C(Loader=1, yaml=2, al=1, SafeLoader=1, **{"import": 1}), removed=C(Loader=1, UnsafeLoader=1),
    ),
    "enable-jinja2-autoescape": dict(
        mod="jinja2", fn="Environment", pool=["", "loader=l", "loader=h(l, autoescape=False), autoescape=False", "**k"],
        edits=[("autoescape=False", "autoescape=True")], appended=["autoescape=True"], added=C(autoescape=1, **{"True": 1}), removed=C(**{"False": 1}),
    ),
    "safe-lxml-parser-defaults": dict(
        mod="lxml.etree", fn="XMLParser", pool=["", "a=1", "a=h(1), **k", "resolve_entities=True"],
        edits=[("resolve_entities=True", "resolve_entities=False")], appended=["resolve_entities=False"], added=C(resolve_entities=1, **{"False": 1}), removed=C(**{"True": 1}),
    ),
    "safe-lxml-parsing": dict(
        needs='import lxml.etree',
        mod="lxml.etree", fn="parse", pool=["p", "h(p)", "p, base_url=b"],
        edits=[], appended=["parser=lxml.etree.XMLParser(resolve_entities=False)"],
        added=C(parser=1, lxml=2, etree=2, XMLParser=1, resolve_entities=1, **{"False": 1, "import": 1}), removed=C(),
    ),
    "secure-random": dict(
        needs='import secrets',
        mod="random", fn="randint", pool=["1, 2", "a, b=2", "*a"],
        edits=[], appended=[], callee=lambda c: "secrets.SystemRandom().randint",
        added=C(secrets=2, SystemRandom=1, randint=1, **{"import": 1}), removed=C(random=2, randint=2, al=2, G=2, **{"import": 1, "from": 1, "as": 1}),
    ),
    "sandbox-process-creation": dict(
        needs='from security import safe_command',
        mod="subprocess", fn="run", pool=["cmd", "cmd, check=True", "[c, h(d)], **k", "*a"],
        edits=[], appended=[], wrap=lambda c: ("safe_command.run", c),
        added=C(security=1, safe_command=2, run=1, **{"from": 1, "import": 1}), removed=C(),
    ),
    "url-sandbox": dict(
        needs='from security import safe_requests',
        mod="requests", fn="get", pool=["u", "u, timeout=3", "h(u), **k"],
        edits=[], appended=[], callee=lambda c: "safe_requests.get",
        added=C(security=1, safe_requests=2, get=1, **{"from": 1, "import": 1}), removed=C(requests=2, al=2, G=2, get=1, **{"import": 1, "from": 1, "as": 1}),
    ),
    "upgrade-sslcontext-tls": dict(
        needs='import ssl',
        mod="ssl", fn="SSLContext", pool=["{M}.PROTOCOL_SSLv2", "protocol={M}.PROTOCOL_SSLv3", "{M}.PROTOCOL_TLSv1"],
        edits=[("{M}.PROTOCOL_SSLv2", "{M}.PROTOCOL_TLS_CLIENT"), ("protocol={M}.PROTOCOL_SSLv3", "protocol={M}.PROTOCOL_TLS_CLIENT"), ("{M}.PROTOCOL_TLSv1", "{M}.PROTOCOL_TLS_CLIENT")],
        appended=[], added=C(PROTOCOL_TLS_CLIENT=1, ssl=2, **{"import": 1}), removed=C(PROTOCOL_SSLv2=1, PROTOCOL_SSLv3=1, PROTOCOL_TLSv1=1, al=1),
    ),
    "limit-readline": dict(
        mod=None, fn="f.readline", prelude=["f = open('x')"], pool=[""],
        edits=[], appended=["5000000"], added=C(**{"5_000_000": 1}), removed=C(),
    ),
    "secure-flask-cookie": dict(
        mod=None, fn="resp.set_cookie", prelude=["import flask", "resp = flask.make_response('x')"], pool=["'k', 'v'", "'k', h('v'), max_age=3", "'k', 'v', secure=False", "*a, **k"],
        edits=[("secure=False", "secure=True")], appended=["secure=True", "httponly=True", "samesite='Lax'"],
        added=C(secure=1, httponly=1, samesite=1, Lax=1, **{"True": 2}), removed=C(**{"False": 1}),
    ),
    "jwt-decode-verify": dict(
        mod="jwt", fn="decode", pool=["t, k, verify=False", "t, key=k, verify=False, algorithms=['HS256']", "t, k, options={'verify_signature': False}"],
        edits=[("verify=False", "verify=True"), ("options={'verify_signature': False}", "options={'verify_signature': True}")],
        appended=[], added=C(**{"True": 1}), removed=C(**{"False": 1}),
    ),
    "harden-ruamel": dict(
        mod="ruamel.yaml", fn="YAML", pool=["typ='unsafe'", "typ='base', pure=True", "typ='unsafe', pure=h(1)"],
        edits=[("typ='unsafe'", "typ='safe'"), ("typ='base'", "typ='safe'")], appended=[], added=C(safe=1), removed=C(unsafe=1, base=1),
    ),
    "django-json-response-type": dict(
        mod="django.http", fn="HttpResponse", pool=["json.dumps(d)", "json.dumps(d), status=200", "json.dumps(h(d), indent=1), **k"], prelude=["import json"],
        edits=[], appended=['content_type="application/json"'], added=C(content_type=1, **{"application/json": 1}), removed=C(),
    ),
    "fix-deprecated-logging-warn": dict(
        mod="logging", fn="warn", pool=["'x'", "'x %s', a", "m, *a, **k"],
        edits=[], appended=[], callee=lambda c: c[: -len("warn")] + "warning" if c.endswith("warn") else None,
        added=C(warning=2), removed=C(warn=2, G=2, **{"as": 1}),
    ),
    #  ---- detector-less hardening codemods (results=None: the transformer finds its own sites)
    "fix-math-isclose": dict(
        needs='import math',
        detectorless=True, mod="math", fn="isclose", pool=["a, 0", "0, h(b)", "a, 0, rel_tol=1e-3", "0.0, b, rel_tol=t, **k"],
        edits=[], appended=["abs_tol=1e-09"], added=C(abs_tol=1, **{"1e-09": 1}), removed=C(),
    ),
    "timezone-aware-datetime": dict(
        needs='import datetime',
        detectorless=True, mod=None, fn=None, pool=[""],
        forms=[("import datetime", "datetime.datetime.utcnow"), ("import datetime as al", "al.datetime.utcnow"), ("from datetime import datetime", "datetime.utcnow"), ("from datetime import datetime as G", "G.utcnow")],
        edits=[], appended=["tz=datetime.timezone.utc", "tz=al.timezone.utc", "tz=timezone.utc"],
        callee=lambda c: c[: -len("utcnow")] + "now",
        added=C(now=1, tz=1, datetime=1, al=1, timezone=2, utc=1, **{"import": 1, "from": 1}), removed=C(utcnow=1),
    ),
    "timezone-aware-datetime/fromtimestamp": dict(
        needs='import datetime',
        detectorless=True, codemod="timezone-aware-datetime", mod=None, fn=None, pool=["ts", "h(ts)"],
        forms=[("import datetime", "datetime.datetime.utcfromtimestamp"), ("import datetime as al", "al.datetime.utcfromtimestamp"), ("from datetime import datetime", "datetime.utcfromtimestamp"), ("from datetime import datetime as G", "G.utcfromtimestamp")],
        edits=[], appended=["tz=datetime.timezone.utc", "tz=al.timezone.utc", "tz=timezone.utc"],
        callee=lambda c: c[: -len("utcfromtimestamp")] + "fromtimestamp",
        added=C(fromtimestamp=1, tz=1, datetime=1, al=1, timezone=2, utc=1, **{"import": 1, "from": 1}), removed=C(utcfromtimestamp=1),
    ),
    "secure-tempfile": dict(
        needs='import tempfile',
        detectorless=True, shape="with", mod="tempfile", fn="mktemp", pool=["", "'s'", "'s', 'p'", "prefix='p'", "dir='d', suffix='s'", "'s', dir='d'"],
        edits=[], appended=[], added=C(), removed=C(),
    ),
}
ORDER = sorted(TABLE)
DETECTORLESS = ["fix-math-isclose", "timezone-aware-datetime", "timezone-aware-datetime/fromtimestamp", "secure-tempfile"]
SAST_A = ["add-requests-timeouts", "django-json-response-type", "enable-jinja2-autoescape", "harden-pyyaml", "harden-ruamel"]
SAST_B = ["jwt-decode-verify", "limit-readline", "requests-verify", "safe-lxml-parser-defaults", "safe-lxml-parsing"]
SAST_C = ["sandbox-process-creation", "secure-flask-cookie", "secure-random"]
SAST_D = ["upgrade-sslcontext-tls", "url-sandbox", "fix-deprecated-logging-warn"]


def sel(pool, i):
    k = 0
    while k < len(pool) - 1:
        if i % len(pool) == k:
            return pool[k]
        k += 1
    return pool[len(pool) - 1]


def build(name, style: int, args: int, decoy: int, layout: int):
    """style: 0 `import M`, 1 `import M as al`, 2 `from M import F`, 3 `from M import F as G` (restricted to the
    styles the codemod's rule covers); decoy: 0 none, 1 an identical call the detector did not report, 2 an
    unrelated call with the same arguments, 3 an unrelated function that locally imports the module the rewrite needs; layout: 0 one line at module level, 1 arguments on their own lines with
    a trailing comma, 2 inside a function body."""
    e = TABLE[name]
    mod, fn = e["mod"], e["fn"]
    a = sel(e["pool"], args)
    lines = list(e.get("prelude", []))
    st = 0
    if "forms" in e:
        imp, callee = sel(e["forms"], style)
        st = style % len(e["forms"])
        lines.append(imp)
    elif mod is None:
        callee = fn
    else:
        st = sel(e.get("styles", [0, 1, 2, 3]), style)
        last = mod.split(".")[-1]
        parent = ".".join(mod.split(".")[:-1])
        if st == 0:
            imp, callee = "import %s" % mod, "%s.%s" % (mod, fn)
        elif st == 1:
            imp, callee = "import %s as al" % mod, "al.%s" % fn
        elif st == 2:
            imp, callee = "from %s import %s" % (mod, fn), fn
        else:
            imp, callee = "from %s import %s as G" % (mod, fn), "G"
        lines.append(imp)
        if "{M}" in a:
            if st >= 2:
                lines.append("import %s" % mod)
            a = a.replace("{M}", "al" if st == 1 else mod)
    lines.append("")
    if layout % 3 == 1 and a:
        call = "%s(\n%s)" % (callee, "".join("    %s,\n" % p for p in _split_args(a)))
    else:
        call = "%s(%s)" % (callee, a)
    ind = "    " if layout % 3 == 2 else ""
    if layout % 3 == 2:
        lines.append("def fn(u, d, a, k, cmd, p, t, l, b, c, m, v):")
    target = "r = " + call
    lines += [ind + l for l in target.split("\n")]
    if layout % 3 == 2:
        lines.append(ind + "return r")
    keep = []
    decoy = decoy % 4
    if decoy == 3 and not e.get("needs"):
        decoy = 2
    if decoy == 1 and e.get("detectorless"):
        decoy = 2  # a detector-less codemod legitimately rewrites an identical second call
    if decoy == 1:
        keep = ["q = %s(%s)" % (callee, a)]
    elif decoy == 2:
        keep = ["q = print(%s)" % a.replace("*a", "1")]
    elif decoy == 3:
        # the module the rewrite needs is imported, but only inside an unrelated function: that binding does not reach
        # the rewritten call
        bound = e["needs"].split()[-1].split(".")[0] if e["needs"].startswith("from ") else e["needs"].split()[1].split(".")[0]
        keep = ["def other():", "    %s" % e["needs"], "    return %s" % bound]
    lines += keep
    return "\n".join(lines) + "\n", callee, a, keep, ("al" if (mod is not None or "forms" in e) and st == 1 else mod)


def _split_args(a):
    call = ast.parse("f(%s)" % a).body[0].value
    return [ast.unparse(x) for x in call.args] + [("%s=%s" % (k.arg, ast.unparse(k.value)) if k.arg else "**" + ast.unparse(k.value)) for k in call.keywords]


def _norm_args(a):
    return _split_args(a) if a.strip() else []


def _tokens(src):
    out = Counter()
    for t in tokenize.generate_tokens(io.StringIO(src).readline):
        if t.type == tokenize.NAME or t.type == tokenize.NUMBER:
            out[t.string] += 1
        elif t.type == tokenize.STRING:
            try:
                out[str(ast.literal_eval(t.string))] += 1
            except Exception:  # noqa
                out[t.string] += 1
    return out


def unresolved(src):
    """Scope-aware set of names that are read but bound neither in an enclosing scope, at module level, nor as
    builtins (C02's definition), from CPython's own symbol tables."""
    import builtins

    top = symtable.symtable(src, "m.py", "exec")
    module_bound = {s.get_name() for s in top.get_symbols() if s.is_assigned() or s.is_imported() or s.is_parameter() or s.is_namespace()}
    out = set()

    def walk(t):
        for s in t.get_symbols():
            n = s.get_name()
            if not s.is_referenced():
                continue
            if t.get_type() == "module":
                free = not (s.is_assigned() or s.is_imported() or s.is_namespace())
            else:
                free = s.is_global()
            if free and n not in module_bound and not hasattr(builtins, n):
                out.add(n)
        for c in t.get_children():
            walk(c)

    walk(top)
    return out


def _position(src, call_code_start):
    """(start line, start col, end line, end col) of the Call node of the `r = ...` statement."""
    mod = cst.parse_module(src)
    w = MetadataWrapper(mod)
    pos = w.resolve(PositionProvider)
    for node, p in pos.items():
        if isinstance(node, cst.Assign) and len(node.targets) == 1 and isinstance(node.targets[0].target, cst.Name) and node.targets[0].target.value == "r":
            q = pos[node.value]
            return q.start.line, q.start.column, q.end.line, q.end.column
    raise AssertionError("no target in\n" + src)


def run(name, src):
    e = TABLE[name]
    cm = _reg()["pixee:python/" + e.get("codemod", name)]
    if e.get("detectorless"):
        fc = FileContext(Path("/d"), Path("/d/m.py"), [], [], None)
        tree = cst.parse_module(src)
        for t in cm.transformer.transformers:
            tree = t.transform(tree, None, fc)
        return tree.code, fc
    sl, sc, el, ec = _position(src, None)
    rule = "r"
    res = [_R(rule_id=rule, locations=[_L(file=Path("m.py"), start=LineInfo(sl, sc + 1), end=LineInfo(el, ec + 1))], finding=Finding(id="F", rule=Rule(id=rule, name="n", url=None)))]
    fc = FileContext(Path("/d"), Path("/d/m.py"), [], [], res)
    tree = cst.parse_module(src)
    for t in cm.transformer.transformers:
        tree = t.transform(tree, res, fc)
    return tree.code, fc


def _target_call(src):
    for node in ast.walk(ast.parse(src)):
        if isinstance(node, ast.Assign) and len(node.targets) == 1 and isinstance(node.targets[0], ast.Name) and node.targets[0].id == "r":
            return node.value
    return None


def check_kind(name, style, args, decoy, layout, kind):
    """Only the C01 part ('compile') or the C02 part ('unresolved') of the oracle."""
    v = check(name, style, args, decoy, layout)
    if v is None:
        return None
    if kind == "compile":
        return v if v.startswith("rewritten module does not compile") else None
    return v if v.startswith("names became unresolved") else None


def check(name, style, args, decoy, layout):
    e = TABLE[name]
    src, callee, a, keep, spelled = build(name, style, args, decoy, layout)
    with NoTracing():
        out, fc = run(name, src)
        if out == src:
            return "the reported call was not hardened:\n" + src
        try:
            compile(out, "m.py", "exec")
        except SyntaxError as ex:
            return "rewritten module does not compile (%s):\n%s" % (ex, out)
        new_unresolved = unresolved(out) - unresolved(src)
        if new_unresolved:
            return "names became unresolved %r:\n%s" % (sorted(new_unresolved), out)
        out_lines = out.split("\n")
        for k in keep:
            if k not in out_lines:
                return "a statement the detector did not report changed (%r):\n%s" % (k, out)
        if e.get("shape") == "with":
            return _check_tempfile(out, a)
        tb, ta = _tokens(src), _tokens(out)
        added, removed = ta - tb, tb - ta
        bad_add = added - e["added"]
        bad_rem = removed - e["removed"]
        if bad_add or bad_rem:
            return "token delta outside the documented edit: added %r removed %r\n--- before\n%s--- after\n%s" % (dict(bad_add), dict(bad_rem), src, out)
        call = _target_call(out)
        if call is None or not isinstance(call, ast.Call):
            return "target statement missing:\n" + out
        exp = _norm_args(a)
        for old, new in e["edits"]:
            # the safe constant may be spelled through the alias or through the (then imported) module itself
            exp = [(_one(new.replace("{M}", spelled or "")), _one(new.replace("{M}", e["mod"] or ""))) if x == _one(old.replace("{M}", spelled or "")) else x for x in exp]
        got = [ast.unparse(x) for x in call.args] + [("%s=%s" % (k.arg, ast.unparse(k.value)) if k.arg else "**" + ast.unparse(k.value)) for k in call.keywords]
        if "wrap" in e:
            wrapper, first = e["wrap"](callee)
            if ast.unparse(call.func) != wrapper or not got or got[0] != first:
                return "callee not wrapped as documented (%s(%s, ...)):\n%s" % (wrapper, first, out)
            got = got[1:]
        else:
            want_callee = e["callee"](callee) if "callee" in e else callee
            if want_callee is not None and ast.unparse(call.func) != want_callee:
                return "callee %r, documented %r:\n%s" % (ast.unparse(call.func), want_callee, out)
        extra = [_one(x.replace("{M}", m)) for x in e["appended"] for m in ((spelled, e["mod"] or spelled) if spelled else ("",))]
        it = iter(got)
        exp = [x if isinstance(x, tuple) else (x,) for x in exp]
        if not all(any(g in x for g in it) for x in exp):
            return "arguments not preserved in order: %r -> %r" % (exp, got)
        rest = list(got)
        for x in exp:
            rest.remove([g for g in rest if g in x][0])
        if any(x not in extra for x in rest):
            return "arguments added beyond the documented ones: %r (from %r to %r)" % (rest, exp, got)
        if len(fc.codemod_changes) != 1:
            return "%d change entries for one hardened call" % len(fc.codemod_changes)
        return None


def _check_tempfile(out, a):
    """secure-tempfile's documented edit: `r = tempfile.mktemp(ARGS)` becomes
    `with tempfile.NamedTemporaryFile(ARGS as keywords, delete=False) as tf: r = tf.name` - suffix / prefix / dir keep
    their meaning (positional i -> the i-th of suffix, prefix, dir; a keyword keeps its name)."""
    call = ast.parse("f(%s)" % a).body[0].value
    exp = {}
    for i, x in enumerate(call.args):
        exp[("suffix", "prefix", "dir")[i]] = ast.literal_eval(x)
    for k in call.keywords:
        exp[k.arg] = ast.literal_eval(k.value)
    exp["delete"] = False
    for node in ast.walk(ast.parse(out)):
        if isinstance(node, ast.With) and len(node.items) == 1 and isinstance(node.items[0].context_expr, ast.Call):
            c = node.items[0].context_expr
            if ast.unparse(c.func) != "tempfile.NamedTemporaryFile":
                continue
            var = node.items[0].optional_vars
            body_ok = any(isinstance(b, ast.Assign) and ast.unparse(b.targets[0]) == "r" and var is not None and ast.unparse(b.value) == ast.unparse(var) + ".name" for b in node.body)
            if not body_ok:
                return "the with block does not bind r to the temporary file's name:\n" + out
            if c.args:
                return "positional arguments passed to NamedTemporaryFile (its first parameter is `mode`):\n" + out
            try:
                got = {k.arg: ast.literal_eval(k.value) for k in c.keywords}
            except Exception:  # noqa
                return "non-literal keyword in\n" + out
            if got != exp:
                return "mktemp arguments not carried over faithfully: expected %r, got %r\n%s" % (exp, got, out)
            return None
    return "no `with tempfile.NamedTemporaryFile(..)` block in\n" + out


def _one(argtext):
    return _split_args(argtext)[0]
