"""C14 — adding a dependency keeps the manifest valid, complete and duplicate-free.

E1 over the text-surgery writers (requirements.txt, setup.cfg), the already-declared test, store selection and
the report notice.  Manifest *shape* is symbolic (which lines, in which order, with or without a final newline,
which blocks repeat a line); the real writers run on it through an in-memory file system.
"""
from pathlib import Path
from typing import List

from packaging.requirements import Requirement
from packaging.utils import canonicalize_name

import codemodder.context as ctxmod
import codemodder.dependency_management.requirements_txt_writer as rw
import codemodder.dependency_management.setupcfg_writer as cw
from codemodder.dependency import DefusedXML, Dependency, Security
from codemodder.dependency_management import DependencyManager
from codemodder.project_analysis.file_parsers.package_store import FileType, PackageStore
from crosshair.core import deep_realize
from crosshair.tracers import NoTracing
from harness import c09
from harness.c04 import _CP
from vlib.core import NoLog, fin, tier
from vlib.main import Xh
from vlib.stubs import FakeFS

cw.logger = NoLog()
ctxmod.logger = NoLog()
NREQ = tier(2, 3)
NCFG = tier(2, 3)

# ------------------------------------------------------------------ already declared under any spelling
P1 = ["flask", "Flask", "FLASK"]
SEP = ["-", "_", ".", "--", "", "-_"]
P2 = ["wtf", "WTF", "wtf2"]


def _sel(pool, i):
    k = 0
    while k < len(pool) - 1:
        if i % len(pool) == k:
            return pool[k]
        k += 1
    return pool[len(pool) - 1]


def declared_any_spelling(a: int, s: int, b: int, versioned: bool) -> bool:
    """PackageStore.has_requirement: a package already declared under any spelling of its name (case, runs of
    '-', '_' and '.', any version) counts as declared; a different name does not.
    post: _
    """
    spelled = _sel(P1, a) + _sel(SEP, s) + _sel(P2, b)
    store = PackageStore(type=FileType.REQ_TXT, file=Path("/d/requirements.txt"), dependencies={spelled + ("==0.9" if versioned else "")}, py_versions=[])
    new = Requirement("flask-wtf==1.2.1")
    exp = canonicalize_name(spelled) == canonicalize_name(new.name)
    return fin(store.has_requirement(new) == exp)


# ------------------------------------------------------------------ requirements.txt
REQ_LINES = ["requests==2.31.0", "# a comment", "", "flask>=2 ; python_version > '3.8'", "-r other.txt"]


def _req_text(sels: List[int], final_newline: bool) -> str:
    lines = [_sel(REQ_LINES, i) for i in sels]
    if not lines:
        return ""
    return "\n".join(lines) + ("\n" if final_newline else "")


def requirements_txt(sels: List[int], final_newline: bool, two: bool, dry_run: bool) -> bool:
    """RequirementsTxtWriter through DependencyManager.write: every original line survives in order, each new
    requirement is appended exactly once on its own line, the file ends with a newline; an empty manifest is
    handled; nothing is raised.
    pre: len(sels) <= NREQ
    post: _
    """
    text = _req_text(sels, final_newline)
    path = "/d/requirements.txt"
    fs = FakeFS({path: text})
    rw.open = fs.open
    store = PackageStore(type=FileType.REQ_TXT, file=Path(path), dependencies={"requests==2.31.0"}, py_versions=[])
    deps = [DefusedXML, Security] if two else [DefusedXML]
    try:
        cs = DependencyManager(store, Path("/d")).write(deps, dry_run)
    finally:
        del rw.open
    if cs is None:
        return False
    if dry_run:
        return fin(fs.writes == [] and len(cs.changes) == len(deps))
    after = fs.files[path]
    orig = text.split("\n")
    if orig and orig[-1] == "":
        orig.pop()
    exp_lines = orig + [str(d.requirement) for d in deps]
    ok = after == "".join(l + "\n" for l in exp_lines)
    n = len(orig)
    ok = ok and [c.lineNumber for c in cs.changes] == [n + 1 + i for i in range(len(deps))]
    return fin(ok)


def requirements_txt_not_utf8(enc: int, two: bool, dry_run: bool) -> bool:
    """A requirements.txt that is not UTF-8 (UTF-16 with a BOM, as PowerShell's `pip freeze >` writes it; latin-1 with
    a non-ASCII comment): after DependencyManager.write the manifest is either byte-identical (the writer declined: no
    ChangeSet) or still decodes - in its original encoding or UTF-8 - to all its original lines plus the new
    requirements.  It is never truncated or left half-written.
    post: _
    """
    if enc % 2 == 0:
        codec, text = "utf-16", "requests==2.31.0\nflask\n"
    else:
        codec, text = "latin-1", "requests==2.31.0\n# caf\u00e9\nflask\n"
    raw = text.encode(codec)
    path = "/d/requirements.txt"
    fs = FakeFS({path: raw})
    rw.open = fs.open
    store = PackageStore(type=FileType.REQ_TXT, file=Path(path), dependencies={"requests==2.31.0"}, py_versions=[])
    deps = [DefusedXML, Security] if two else [DefusedXML]
    try:
        cs = DependencyManager(store, Path("/d")).write(deps, dry_run)
    except Exception:  # noqa
        return False
    finally:
        del rw.open
    after = fs.files[path]
    if after == raw:
        return fin(cs is None or dry_run)
    if cs is None or dry_run:
        return False  # the manifest changed although the writer reported no update
    data = after if isinstance(after, bytes) else after.encode("utf-8", "surrogateescape")
    for c in (codec, "utf-8"):
        try:
            lines = data.decode(c).split("\n")
        except Exception:  # noqa
            continue
        want = [l for l in text.split("\n") if l] + [str(d.requirement) for d in deps]
        if [l for l in lines if l] == want:
            return fin(True)
    return False


# ------------------------------------------------------------------ setup.cfg
CFG_DEPS = ["requests", "flask>=2", "six"]


def _cfg(setup_block: int, deps: List[int], trailing: bool, inline: bool):
    """Structured setup.cfg.  setup_block: 0 none, 1 a setup_requires block listing 'wheel', 2 a setup_requires
    block that repeats the LAST install_requires line."""
    dep_lines = [_sel(CFG_DEPS, i) for i in deps]
    lines = ["[metadata]", "name = x", "", "[options]"]
    if setup_block:
        lines.append("setup_requires =")
        lines.append("    wheel" if setup_block == 1 or not dep_lines else "    " + dep_lines[-1])
    if inline:
        lines.append("install_requires = " + ", ".join(dep_lines))
        block = (len(lines) - 1, len(lines) - 1)
    else:
        lines.append("install_requires =")
        start = len(lines)
        for d in dep_lines:
            lines.append("    " + d)
        block = (start, len(lines) - 1)
    if trailing:
        # the extras entry ENDS with the same text as the install_requires value (inline layout) or repeats its last
        # line (multi-line layout): only the position tells the two apart
        lines += ["", "[options.extras_require]", "test = " + (", ".join(dep_lines) if inline else "pytest")]
        if not inline and dep_lines:
            lines += ["other =", "    " + dep_lines[-1]]
    return lines, block, dep_lines


def _cfg_oracle(text_after, lines, b0, dep_lines, new_strs, inline) -> bool:
    import configparser

    after = text_after.split("\n")
    if after and after[-1] == "":
        after.pop()
    # original lines survive in order (the inline entry line is extended in place)
    j = 0
    for l in after:
        if j < len(lines) and (l == lines[j] or (inline and j == b0 and l.startswith(lines[j]))):
            j += 1
    ok = j == len(lines)
    # each new requirement exactly once, and within the install_requires entry
    for ns in new_strs:
        hits = [i for i, l in enumerate(after) if ns in l]
        ok = ok and len(hits) == 1
        if len(hits) == 1:
            i = hits[0]
            if inline:
                ok = ok and after[i].startswith("install_requires = ")
            else:
                # between the 'install_requires =' key line and the end of its indented block
                k = after.index("install_requires =")
                end = k + 1
                while end < len(after) and after[end].startswith("    "):
                    end += 1
                ok = ok and k < i < end
    # still parses, and the parsed list has old + new
    cp = configparser.ConfigParser()
    cp.read_string(text_after)
    parsed = cp["options"]["install_requires"]
    got = [x.strip() for x in (parsed.split("\n") if "\n" in parsed else parsed.split(",")) if x.strip()]
    ok = ok and all(got.count(n) == 1 for n in new_strs) and all(got.count(d) == dep_lines.count(d) for d in dep_lines) and len(got) == len(dep_lines) + len(new_strs)
    return ok


def setup_cfg(setup_block: int, deps: List[int], trailing: bool, inline: bool, two: bool) -> bool:
    """SetupCfgWriter through DependencyManager.write on a structured setup.cfg: every original line survives in
    order, each new requirement appears exactly once, inside the install_requires entry, and configparser still
    reads the file with every old and new requirement under options.install_requires.
    pre: 0 <= setup_block <= 2 and 1 <= len(deps) <= NCFG
    post: _
    """
    lines, (b0, b1), dep_lines = _cfg(setup_block, deps, trailing, inline)
    text = "".join(l + "\n" for l in lines)
    path = "/d/setup.cfg"
    fs = FakeFS({path: text})
    cw.open = fs.open
    _CP.fs = fs
    cw.configparser = _CP
    store = PackageStore(type=FileType.SETUP_CFG, file=Path(path), dependencies=set(dep_lines), py_versions=[])
    new = [DefusedXML, Security] if two else [DefusedXML]
    try:
        cs = DependencyManager(store, Path("/d")).write(new, False)
    finally:
        import configparser

        cw.configparser = configparser
        del cw.open
    if cs is None:
        return False
    n_changes = len(cs.changes)
    text_after = deep_realize(fs.files[path])
    with NoTracing():  # the oracle works on concrete text only
        ok = _cfg_oracle(text_after, lines, b0, dep_lines, [str(d.requirement) for d in new], inline)
    return fin(ok and n_changes == len(new))


def already_declared_not_written(kind: int, s: int) -> bool:
    """DependencyWriter.write: when the package is already declared (under another spelling and version) the
    manifest is not opened for writing and no ChangeSet is returned.
    pre: 0 <= kind <= 1
    post: _
    """
    spelled = _sel(["defusedxml==0.6", "DefusedXML", "DEFUSEDXML>=0.5"], s)
    if kind == 0:
        path, text, ft, mod = "/d/requirements.txt", "requests\n%s\n" % spelled, FileType.REQ_TXT, rw
    else:
        path, text, ft, mod = "/d/setup.cfg", "[options]\ninstall_requires =\n    requests\n    %s\n" % spelled, FileType.SETUP_CFG, cw
    fs = FakeFS({path: text})
    mod.open = fs.open
    _CP.fs = fs
    cw.configparser = _CP
    store = PackageStore(type=ft, file=Path(path), dependencies={"requests", spelled}, py_versions=[])
    try:
        cs = DependencyManager(store, Path("/d")).write([DefusedXML], False)
    finally:
        import configparser

        cw.configparser = configparser
        del mod.open
    return fin(cs is None and fs.writes == [] and fs.files[path] == text)


def second_run_setup_cfg(deps: List[int], inline: bool, final_newline: bool) -> bool:
    """Parser + writer round trip on setup.cfg (real SetupCfgParser, real SetupCfgWriter): after a run added the
    requirement, the manifest still parses, lists every old requirement and the new one exactly once, and a
    second run (re-parse, write again) adds nothing.
    pre: 1 <= len(deps) <= 2
    post: _
    """
    import codemodder.project_analysis.file_parsers.setup_cfg_file_parser as scp

    lines, (b0, b1), dep_lines = _cfg(0, deps, False, inline)
    text = "\n".join(lines) + ("\n" if final_newline else "")
    path = "/d/setup.cfg"
    fs = FakeFS({path: text})
    cw.open = fs.open
    _CP.fs = fs
    cw.configparser = _CP
    scp.configparser = _CP
    try:
        store1 = scp.SetupCfgParser(Path("/d"))._parse_file(Path(path))
        cs1 = DependencyManager(store1, Path("/d")).write([DefusedXML], False)
        after1 = deep_realize(fs.files[path])
        store2 = scp.SetupCfgParser(Path("/d"))._parse_file(Path(path))
        cs2 = DependencyManager(store2, Path("/d")).write([DefusedXML], False)
        after2 = deep_realize(fs.files[path])
    finally:
        import configparser

        cw.configparser = configparser
        scp.configparser = configparser
        del cw.open
    if cs1 is None:
        return False
    with NoTracing():
        import configparser

        cp = configparser.ConfigParser()
        cp.read_string(after1)
        parsed = cp["options"]["install_requires"]
        got = [x.strip() for x in parsed.replace(",", "\n").split("\n") if x.strip()]
        ok = got.count("defusedxml==0.7.1") == 1 and all(d.split(">")[0] in [g.split(">")[0] for g in got] for d in dep_lines)
    return fin(ok and cs2 is None and after2 == after1)


REQ_LAYOUTS = [
    "defusedxml==0.7.1\n",
    "defusedxml  # xml\n",
    "defusedxml==0.7.1 \\\n    --hash=sha256:bbbb\n",
    "defusedxml==0.7.1 --hash=sha256:bbbb\n",
    "DefusedXML[extra]>=0.7 ; python_version > '3'\n",
    "",
]


def second_run_requirements_txt(layout: int, final_newline: bool) -> bool:
    """Parser + writer round trip on requirements.txt (real RequirementsTxtParser incl. chardet, real writer): defusedxml
    declared in one of 5 layouts (pinned, with a comment, hash-checking with continuation line, inline --hash, extras
    and marker under another spelling) or not declared: a declared package is never added again; an undeclared one is
    added once and a second run (re-parse, write again) adds nothing.
    post: _
    """
    import codemodder.project_analysis.file_parsers.requirements_txt_file_parser as rtp

    k = 0
    while k < len(REQ_LAYOUTS) - 1:
        if layout % len(REQ_LAYOUTS) == k:
            break
        k += 1
    decl = REQ_LAYOUTS[k]
    text = "requests==2.31.0 --hash=sha256:aaaa\n" + decl
    if not final_newline and text.endswith("\n"):
        text = text[:-1]
    path = "/d/requirements.txt"
    fs = FakeFS({path: text})
    rw.open = fs.open
    rtp.open = fs.open
    try:
        with NoTracing():
            store1 = rtp.RequirementsTxtParser(Path("/d"))._parse_file(Path(path))
            cs1 = DependencyManager(store1, Path("/d")).write([DefusedXML], False)
            after1 = fs.files[path]
            store2 = rtp.RequirementsTxtParser(Path("/d"))._parse_file(Path(path))
            cs2 = DependencyManager(store2, Path("/d")).write([DefusedXML], False)
            after2 = fs.files[path]
    finally:
        del rw.open
        del rtp.open
    if decl:
        return fin(cs1 is None and cs2 is None and after2 == text)
    return fin(cs1 is not None and after1.lower().count("defusedxml") == 1 and cs2 is None and after2 == after1 and after1.startswith("requests==2.31.0 --hash=sha256:aaaa"))


def second_run_setup_py(single_quotes: bool, attr_call: bool, declared: int) -> bool:
    """Parser + writer round trip on setup.py (real SetupPyParser, real SetupPyWriter; libcst runs untraced on the
    concrete text): requirement strings written with double or single quotes, `setup(..)` or `setuptools.setup(..)`,
    defusedxml undeclared / declared / declared with a version: a declared package is never added again; an
    undeclared one is added exactly once and a second run (re-parse, write again) adds nothing.
    post: _
    """
    import codemodder.dependency_management.setup_py_writer as spw
    import codemodder.project_analysis.file_parsers.setup_py_file_parser as spp

    q = "'" if single_quotes else '"'
    reqs = ["requests"] + ([] if declared % 3 == 0 else (["defusedxml"] if declared % 3 == 1 else ["defusedxml>=0.6"]))
    head = "import setuptools\nsetuptools.setup(\n" if attr_call else "from setuptools import setup\nsetup(\n"
    text = head + "    name=%sx%s,\n    install_requires=[\n%s    ],\n)\n" % (q, q, "".join("        %s%s%s,\n" % (q, r, q) for r in reqs))
    path = "/d/setup.py"
    fs = FakeFS({path: text})
    spw.open = fs.open
    spp.open = fs.open
    try:
        with NoTracing():
            store1 = spp.SetupPyParser(Path("/d"))._parse_file(Path(path))
            cs1 = DependencyManager(store1, Path("/d")).write([DefusedXML], False)
            after1 = fs.files[path]
            store2 = spp.SetupPyParser(Path("/d"))._parse_file(Path(path))
            cs2 = DependencyManager(store2, Path("/d")).write([DefusedXML], False)
            after2 = fs.files[path]
    finally:
        del spw.open
        del spp.open
    n1 = after1.count("defusedxml")
    if declared % 3 != 0:
        return fin(cs1 is None and cs2 is None and after2 == text)
    return fin(cs1 is not None and n1 == 1 and cs2 is None and after2 == after1 and "requests" in after1)


PYPROJECT_LAYOUTS = [
    '[tool.poetry]\nname = "x"\n\n[tool.poetry.dependencies]\npython = "^3.9"\nrequests = "*"\n',
    '[tool.poetry]\nname = "x"\n\n[tool.poetry.dependencies]\npython = "^3.9"\ndefusedxml = "~0.7"\n',
    '[tool.poetry]\nname = "x"\n\n[tool.poetry.dependencies]\npython = "^3.9"\ndefusedxml = {version = "^0.7", optional = true}\n',
    '[project]\nname = "x"\ndependencies = ["requests"]\n',
    '[project]\nname = "x"\ndependencies = [\n    "requests",\n]\n',
    '[project]\nname = "x"\ndependencies = ["requests", "defusedxml>=0.6"]\n',
]


def pyproject_round_trip(layout: int, two: bool) -> bool:
    """Parser + writer round trip on pyproject.toml (real PyprojectTomlParser and PyprojectWriter, tomlkit untraced) over
    6 layouts - poetry table (package absent / present with a `~` version / present as an inline table), [project]
    inline and multi-line arrays, package already listed - adding one or two packages: nothing is raised; either the
    manifest is untouched and no ChangeSet is returned, or it still parses, keeps `requests` and every change line lies
    inside the file; a package that is already a key / entry is never written a second time; a second run adds nothing.
    post: _
    """
    import tomlkit

    import codemodder.dependency_management.pyproject_writer as pw
    import codemodder.project_analysis.file_parsers.pyproject_toml_file_parser as ptp

    k = 0
    while k < len(PYPROJECT_LAYOUTS) - 1:
        if layout % len(PYPROJECT_LAYOUTS) == k:
            break
        k += 1
    text = PYPROJECT_LAYOUTS[k]
    two = True if two else False
    deps = [DefusedXML, Security] if two else [DefusedXML]
    path = "/d/pyproject.toml"
    fs = FakeFS({path: text})
    pw.open = fs.open
    ptp.open = fs.open
    try:
        with NoTracing():
            try:
                store1 = ptp.PyprojectTomlParser(Path("/d"))._parse_file(Path(path))
                cs1 = DependencyManager(store1, Path("/d")).write(deps, False)
                after1 = fs.files[path]
                store2 = ptp.PyprojectTomlParser(Path("/d"))._parse_file(Path(path))
                cs2 = DependencyManager(store2, Path("/d")).write(deps, False)
                after2 = fs.files[path]
            except Exception:  # noqa
                return False
            if cs1 is None:
                ok = after1 == text
            else:
                doc = tomlkit.loads(after1)
                n_lines = len(after1.split("\n"))
                ok = ("requests" in after1) == ("requests" in text) and all(1 <= c.lineNumber <= n_lines for c in cs1.changes)
                ok = ok and after1.count("security") == (1 if two else 0) and doc is not None
            ok = ok and after1.lower().count("defusedxml") == 1 and cs2 is None and after2 == after1
    finally:
        del pw.open
        del ptp.open
    return fin(ok)


def two_codemods_one_manifest(same_dep: bool, declared: bool, swap: bool) -> bool:
    """Two codemods of one run needing a package (the same or different ones) share the run's parsed manifest: each
    needed package ends up listed exactly once, as after one-at-a-time runs (obligation shared with C09).
    post: _
    """
    return fin(c09._shared_manifest(same_dep, declared, swap))


class _RM:
    def __init__(self, stores):
        self.package_stores = stores


class _Cm:
    id = "cm"
    description = "DESC"


def notice(n_stores: int, ok0: bool, ok1: bool, has_deps: bool) -> bool:
    """context.process_dependencies + add_description: at most one manifest is written (iteration stops at the
    first success); the description gains the 'added to <manifest>' notice when one was updated and the
    'could not be added' notice when none could; no notice without dependencies.
    pre: 0 <= n_stores <= 2
    post: _
    """
    import codemodder.dependency_management as dm_pkg
    from codemodder.codetf import Change, ChangeSet
    from codemodder.context import CodemodExecutionContext
    from codemodder.dependency import build_dependency_notification, build_failed_dependency_notification

    oks = [ok0, ok1][:n_stores]
    kinds = [FileType.TOML, FileType.REQ_TXT]
    stores = [PackageStore(type=kinds[i], file=Path("/d/m%d" % i), dependencies=set(), py_versions=[]) for i in range(n_stores)]
    written = []

    class DM:
        def __init__(self, store, directory):
            self.store = store

        def write(self, dependencies, dry_run=False):
            idx = stores.index(self.store)
            if oks[idx]:
                written.append(idx)
                return ChangeSet(path="m%d" % idx, diff="d", changes=[Change(lineNumber=1, description="x")])
            return None

    with NoTracing():
        ctx = CodemodExecutionContext(Path("/d"), False, False, None, None, _RM(stores), [], [], {}, 1)
    if has_deps:
        ctx.add_dependencies("cm", {DefusedXML})
    orig = dm_pkg.DependencyManager
    dm_pkg.DependencyManager = DM
    try:
        ctx.process_dependencies("cm")
    finally:
        dm_pkg.DependencyManager = orig
    desc = ctx.add_description(_Cm)
    if not has_deps:
        return fin(written == [] and desc == "DESC")
    first = None
    for i, o in enumerate(oks):
        if o:
            first = i
            break
    if first is None:
        return fin(written == [] and desc == "DESC" + build_failed_dependency_notification(DefusedXML))
    return fin(written == [first] and desc == "DESC" + build_dependency_notification(kinds[first].value, DefusedXML))


def planted_duplicate_append(sels: List[int]) -> bool:
    """Self-test: a writer that appends the requirement twice must be refuted by the requirements.txt oracle.
    pre: len(sels) <= 2
    post: _
    """
    text = _req_text(sels, True)
    after = text + "defusedxml==0.7.1\n" * 2
    orig = text.split("\n")
    if orig and orig[-1] == "":
        orig.pop()
    return after == "".join(l + "\n" for l in orig + ["defusedxml==0.7.1"])


def warmup():
    declared_any_spelling(1, 1, 1, True)
    try:
        requirements_txt([0, 1], False, True, False)
        requirements_txt([], True, False, False)
        requirements_txt_not_utf8(0, True, False)
        requirements_txt_not_utf8(1, False, True)
    except Exception:
        pass
    for sb in range(3):
        try:
            setup_cfg(sb, [0, 1], True, False, True)
            setup_cfg(sb, [0], False, True, False)
        except Exception:
            pass
    try:
        second_run_setup_cfg([0, 1], False, True)
    except Exception:
        pass
    already_declared_not_written(0, 0)
    already_declared_not_written(1, 1)
    notice(2, False, True, True)
    notice(0, False, True, True)


SPEC = {
    "property": "C14",
    "level": "model_checking",
    "files": [
        "src/codemodder/context.py",
        "src/codemodder/dependency.py",
        "src/codemodder/dependency_management/base_dependency_writer.py",
        "src/codemodder/dependency_management/requirements_txt_writer.py",
        "src/codemodder/dependency_management/setupcfg_writer.py",
        "src/codemodder/project_analysis/file_parsers/package_store.py",
    ],
    "functions": [
        "PackageStore.has_requirement",
        "DependencyWriter.write / add / build_changes",
        "RequirementsTxtWriter.add_to_file",
        "SetupCfgWriter.add_to_file / build_new_lines",
        "SetupCfgParser._parse_file (round trip with the writer)",
        "CodemodExecutionContext.process_dependencies / add_description",
        "dependency.build_dependency_notification / build_failed_dependency_notification",
    ],
    "bounds": {
        "quick": "requirements.txt: <= 2 (thorough 3) lines chosen from 5 kinds (pinned requirement, comment, blank, marker, -r include), with/without final newline, empty file, 1-2 new dependencies, dry/real; setup.cfg: optional setup_requires block (unrelated / repeating the last install_requires line), 1-2 (thorough 3) install_requires lines from a pool of 3 (duplicates allowed), inline or multi-line, optional trailing extras section that ends with / repeats the install_requires text; declared-name spellings: 3 cases x 6 separators x 3 second parts; <= 2 stores",
        "thorough": "requirements.txt with <= 3 lines",
    },
    "assumptions": [
        "manifests are built from pools of concrete lines chosen by symbolic selectors (packaging / configparser run on concrete text)",
        "open() in the writer modules and configparser.read are redirected to an in-memory file system",
        "PyprojectWriter (tomlkit) and SetupPyWriter (libcst) are outside (covered only by C04's dry/real skeleton on concrete layouts)",
    ],
    "stubs": ["file system (FakeFS)", "configparser.read", "DependencyManager in `notice` (symbolic success per store)", "repo manager", "logger"],
    "outside": ["pyproject.toml and setup.py text surgery", "CRLF manifests", "a second run adding nothing end to end (follows from already_declared_not_written given the store is re-parsed)"],
    "xh": [
        Xh("declared_any_spelling", 200, 400),
        Xh("requirements_txt_not_utf8", 100, 200),
        Xh("requirements_txt", 300, 900),
        Xh("setup_cfg", 400, 1500),
        Xh("already_declared_not_written", 150, 300),
        Xh("second_run_setup_py", 100, 200),
        Xh("pyproject_round_trip", 100, 200),
        Xh("second_run_requirements_txt", 100, 200),
        Xh("second_run_setup_cfg", 200, 400),
        Xh("two_codemods_one_manifest", 200, 400),
        Xh("notice", 150, 300),
        Xh("planted_duplicate_append", 60, 120, twin=False, expect="refuted"),
    ],
}
