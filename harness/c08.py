"""C08 — refactoring codemods preserve program behaviour (expression-level refactorings, E2)."""
from tv import driver


def translation_validation(tier_name):
    return driver.run("C08", tier_name)


def planted(tier_name):
    """Self-test: known non-equivalent pairs must come back sat, a known equivalent pair unsat."""
    out = []
    for b, a, exp in [("r = not a == b == n\n", "r = a != b != n\n", "sat"), ("r = p or q and a\n", "r = (p or q) and a\n", "sat"), ("r = not a < b\n", "r = a >= b\n", "unsat"), ("r = not a < None\n", "r = a >= None\n", "unsat")]:
        res = driver.check_pair(b, a)[0]
        out.append(res == exp)
    return [{"name": "planted:evaluator-tells-known-pairs-apart", "engine": "E2-z3-translation-validation", "verdict": "discharged" if all(out) else "harness_error", "evaluations": len(out), "distinct_nontrivial": len(out), "z3_checks": len(out), "detail": "" if all(out) else repr(out)}]


def use_generator_call(fsel: int, extra: int, trailing_comma: bool, multiline: bool, empty: bool) -> bool:
    """UseGenerator.leave_Call over a symbolic call shape (builtin, trailing comma, one-line / multi-line layout, an
    optional second argument: positional start, key=, default=): the rewritten call evaluates to the same value or
    raises the same exception type as the original, on a non-empty and on an empty iterable.
    pre: 0 <= extra <= 3
    post: _
    """
    from harness import ugen
    from vlib.core import fin

    call = ugen.build_call(fsel, extra, trailing_comma, multiline)
    new, _ = ugen.rewrite(call)
    before, after = ugen.observe(ugen.code(call), empty), ugen.observe(ugen.code(new), empty)
    if before[0] == "syntax-error":
        return fin(True)
    return fin(before == after)


FCH = ["a", "{", "}", "\\", "'", '"', " "]
FPREFIX = ["f", "F", "rf", "fr"]
NF = __import__("vlib.core", fromlist=["tier"]).tier(2, 3)
FQUOTE = ['"', "'", '"""']


def _sel(pool, i):
    k = 0
    while k < len(pool) - 1:
        if i % len(pool) == k:
            return pool[k]
        k += 1
    return pool[len(pool) - 1]


def _pipeline_value(codemod_name: str, expr: str, env: dict):
    """Run the complete real pipeline of a detector-less codemod on `r = <expr>` and evaluate both versions."""
    from crosshair.tracers import NoTracing

    with NoTracing():  # the program is concrete on this path: native-speed pipeline + exec
        from tv import driver

        cm = _REG["pixee:python/" + codemod_name]
        src = "r = %s\n" % expr
        try:
            compile(src, "<before>", "exec")
        except SyntaxError:
            return None
        out, _ = driver.run_pipeline(cm, src)

        def val(code):
            ns = dict(env)
            try:
                exec(compile(code, "<p>", "exec"), ns)
                return ("val", type(ns["r"]).__name__, repr(sorted(ns["r"], key=repr)) if isinstance(ns["r"], (set, frozenset)) else repr(ns["r"]))
            except SyntaxError:
                return ("syntax-error",)
            except Exception as e:  # noqa
                return ("exc", type(e).__name__)

        return val(src), val(out), out != src


def unnecessary_fstring(n: int, c0: int, c1: int, c2: int, p: int, q: int) -> bool:
    """remove-unnecessary-f-str (complete real pipeline) on an f-string literal whose prefix, quote style and
    content (<= 2, thorough 3, characters over ordinary, both braces, backslash, both quotes, space) are symbolic selectors:
    the rewritten module binds the same string.
    pre: 0 <= n <= NF
    post: _
    """
    from vlib.core import fin

    content = ""
    if n >= 1:
        content += _sel(FCH, c0)
    if n >= 2:
        content += _sel(FCH, c1)
    if n >= 3:
        content += _sel(FCH, c2)
    quote = _sel(FQUOTE, q)
    res = _pipeline_value("remove-unnecessary-f-str", _sel(FPREFIX, p) + quote + content + quote, {})
    if res is None:
        return fin(True)
    before, after, _changed = res
    return fin(before == after)


SET_ELTS = ["1", "x", "*xs", "(1, 2)", "x + 1"]


def set_literal(n: int, e0: int, e1: int, e2: int, trailing_comma: bool, spaced: bool) -> bool:
    """use-set-literal (complete real pipeline) on `set([...])` with 0-3 elements of symbolic kinds (constant, name,
    starred, tuple, expression), optional trailing comma and inner spacing: the rewritten module binds an equal set.
    pre: 0 <= n <= 3
    post: _
    """
    from vlib.core import fin

    elts = []
    if n >= 1:
        elts.append(_sel(SET_ELTS, e0))
    if n >= 2:
        elts.append(_sel(SET_ELTS, e1))
    if n >= 3:
        elts.append(_sel(SET_ELTS, e2))
    inner = ", ".join(elts) + ("," if trailing_comma and elts else "")
    expr = "set( [ %s ] )" % inner if spaced else "set([%s])" % inner
    res = _pipeline_value("use-set-literal", expr, {"x": 3, "xs": [4, 5]})
    if res is None:
        return fin(True)
    before, after, _changed = res
    return fin(before == after)


def walrus_if(test: int, value: int, body: int, tail: int, wrap: int) -> bool:
    """use-walrus-if (complete real pipeline) on `x = g(); if <test on x>: ... else: ...` with a symbolic test form,
    runtime value of g(), body, and continuation (x unused afterwards / read at the same level / read only from a
    nested function / read only from a comprehension / re-assigned), at module level, inside a function, or inside a
    loop whose body reads x above the assignment: the rewritten module computes the same values and raises the same
    exception type.
    post: _
    """
    from harness import walrus
    from vlib.core import fin

    src = walrus.build(test, value, body, tail, wrap)
    before, after, _out = walrus.run(src)
    if before[0] != "val":
        return fin(True)
    return fin(before == after)


def file_resource_leak(alias: int, u0: int, u1: int, u2: int, wrap: int) -> bool:
    """fix-file-resource-leak (complete real pipeline) on `f = open(..)` [+ an alias] followed by three statements
    of symbolic kinds (read through f, read through the alias, unrelated, read inside a comprehension, read inside
    an if) at module level or in a function: with an `open` whose files refuse reads after close, the rewritten
    module computes the same values and raises the same exception type (the `with` block must reach the last use).
    post: _
    """
    from harness import leak
    from vlib.core import fin

    src = leak.build(alias, u0, u1, u2, wrap)
    before, after, _out = leak.run(src)
    if before[0] != "val":
        return fin(True)
    return fin(before == after)


def sql_parameterization(style: int, nparams: int, split: int, var: int) -> bool:
    """sql-parameterization (complete real pipeline: linearisation, format-string parsing, quote surgery, clean-up
    passes) on a closed sqlite3 program whose query is built INSIDE A FUNCTION from 1-3 parameters by `+`, an f-string,
    printf `%`, str.format or a formatter-style parenthesised concatenation (one operand per line), written as one literal, adjacent literals or literals joined with `+` (the split falling
    between the placeholder and its closing quote), inline or through a variable: executed against an in-memory
    database with each of 4 benign value tuples, the rewritten program prints the same rows and raises the same
    exception type as the original.
    pre: 1 <= nparams <= 3
    post: _
    """
    from harness import sqlfam
    from vlib.core import fin

    return fin(sqlfam.check(style, nparams, split, 1, var) is None)


def sql_parameterization_module(style: int, nparams: int, split: int, var: int) -> bool:
    """The same family with the query built at module level.
    pre: 1 <= nparams <= 3
    post: _
    """
    from harness import sqlfam
    from vlib.core import fin

    return fin(sqlfam.check(style, nparams, split, 0, var) is None)


def sql_parameterization_carried(style: int, carry: int, var: int, scope: int) -> bool:
    """The same family with the injected value travelling through an intermediate variable (`who = name` /
    `who = name + '!'`) that is READ AGAIN after the query (directly, or inside a comprehension): the rewritten program
    prints the same rows and the same value of that variable - the variable is not emptied, removed or left unbound;
    carry 3 / 4: an unrelated local read only by an inner function / an assignment to a global read by a sibling
    function survive the clean-up pass that follows the rewrite.
    pre: 1 <= carry <= 4
    post: _
    """
    from harness import sqlfam
    from vlib.core import fin

    return fin(sqlfam.check(style, 1, 0, scope, var, carry) is None)


def sast_refactorings(which: int, style: int, args: int, decoy: int, layout: int) -> bool:
    """fix-deprecated-logging-warn through the detector-driven family (harness/hardsast.py): `logging.warn` under 4
    import styles x argument lists x surroundings x layouts becomes `warning` with every argument kept in order -
    `warn` is documented as an alias of `warning`, so equal callee-and-arguments is observational equivalence.
    post: _
    """
    from harness import hardsast
    from vlib.core import fin

    return fin(hardsast.check("fix-deprecated-logging-warn", style, args, decoy, layout) is None)


def lock_with_statement(kind: int, style: int, scope: int, collide: int, two: bool) -> bool:
    """bad-lock-with-statement (complete real transformer chain, one result per reported with-item): `with
    threading.K():` for the 5 lock classes under 3 import styles, at module level / in a function / inside an if,
    alone or twice, while the generated variable name is free, is a module variable read afterwards, or is a parameter
    / loop variable of the surrounding code: both programs are executed and print the same values.
    post: _
    """
    from harness import refsast
    from vlib.core import fin

    return fin(refsast.check_lock(kind, style, scope, collide, two) is None)


def hasattr_call(obj: int, ctx: int, quote: int, scope: int) -> bool:
    """fix-hasattr-call: `hasattr(o, "__call__")` in 6 expression contexts x 7 benign objects (builtin, int, None,
    instance of a class defining __call__, class, str, lambda) x quote style x scope; an unreported
    `hasattr(o, 'real')` next to it stays; both programs print the same value.
    post: _
    """
    from harness import refsast
    from vlib.core import fin

    return fin(refsast.check_hasattr(obj, ctx, quote, scope) is None)


def lazy_logging_output(msg: int, call: int, xval: int, scope: int) -> bool:
    """lazy-logging: 9 message constructions (`%` with one value / a tuple, `+` with the variable first, last or in
    the middle, literals containing `%%` or a bare `%`, adjacent literals, parenthesised) x 6 logging calls (module
    functions, log(level, ..), a logger object, getLogger(..).info, extra keyword) x 4 values of the variable
    (plain, containing `%`, `%s`, empty) x scope: both programs are executed with a capturing handler on the root
    logger; level and formatted message of every record agree (a formatting error counts as a difference).
    post: _
    """
    from harness import refsast
    from vlib.core import fin

    return fin(refsast.check_log(msg, call, xval, scope) is None)


def _load_registry():
    from codemodder.registry import load_registered_codemods

    return {c.id: c for c in load_registered_codemods().codemods}


_REG = _load_registry()


def warmup():
    unnecessary_fstring(2, 0, 1, 0, 0, 0)
    set_literal(2, 0, 2, 0, True, False)
    use_generator_call(2, 1, False, False, False)
    walrus_if(0, 0, 1, 2, 0)
    file_resource_leak(1, 0, 1, 2, 1)
    sql_parameterization(2, 2, 1, 1)
    sql_parameterization_module(0, 1, 0, 0)
    sql_parameterization_carried(1, 2, 1, 1)
    sast_refactorings(0, 1, 1, 1, 1)
    lock_with_statement(1, 1, 1, 1, True)
    hasattr_call(3, 2, 1, 1)
    lazy_logging_output(1, 3, 1, 1)
    lazy_logging_output(2, 0, 0, 0)


SPEC = {
    "property": "C08",
    "level": "translation_validation",
    "files": ["src/core_codemods/invert_boolean_check.py", "src/core_codemods/combine_calls_base.py", "src/core_codemods/combine_startswith_endswith.py", "src/core_codemods/combine_isinstance_issubclass.py", "src/codemodder/codemods/libcst_transformer.py"],
    "functions": [
        "the complete real pipeline (cst.parse_module -> transformer.transform for every transformer of the codemod -> Module.code) of pixee:python/invert-boolean-check, combine-startswith-endswith, combine-isinstance-issubclass",
        "InvertedBooleanCheckTransformer.leave_UnaryOperation / report_new_comparison / _invert_comparisons",
        "CombineCallsBaseCodemod.leave_BooleanOperation / matches_* / combine_*",
        "UseGenerator.leave_Call (E1 kernel over a symbolic call shape)",
        "the complete real pipelines of remove-unnecessary-f-str, use-set-literal, use-walrus-if and fix-file-resource-leak on selector-built programs (value comparison by exec)",
        "sql-parameterization: complete real pipeline (SQLQueryParameterization, linearize_string_expression, format_string_parser, clean_code passes) on selector-built sqlite3 programs, exec oracle against an in-memory database",
        "fix-deprecated-logging-warn: complete real transformer chain with one result placed on the call",
        "bad-lock-with-statement, fix-hasattr-call, lazy-logging: complete real transformer chains with results placed on the expressions their rules focus on (harness/refsast.py); both programs executed, stdout / log records / exception type compared",
    ],
    "bounds": {
        "quick": "grammar `r = <expr>`: not-prefixed comparison chains of 1-2 operators out of == != < > <= >= is 'is not' in 'not in' over int names, a bool name, True, None, 0 and a container, bare / parenthesised / inside and-or contexts; and/or trees of depth <= 1 and all 3-atom shapes (with and without parentheses) over 5 of 8 startswith/endswith atoms and 5 of 7 isinstance/issubclass atoms.  Value sorts: unbounded ints, bools, None; predicates uninterpreted; per element name a 'denotes a 2-tuple' flag.  Whole-pipeline families (selector-built programs, exec oracle): use-generator, remove-unnecessary-f-str, use-set-literal, use-walrus-if, fix-file-resource-leak, sql-parameterization (4 construction styles x 1-3 parameters x 3 literal splits x inline / variable x function / module scope x 4 value tuples), fix-deprecated-logging-warn, bad-lock-with-statement (5 classes x 3 import styles x 3 scopes x 3 name-collision shapes x 1-2 statements), fix-hasattr-call (7 objects x 6 contexts), lazy-logging (9 message constructions x 6 calls x 4 values x 2 scopes)",
        "thorough": "chains of up to 3 operators, all 8 / 7 atoms, left-parenthesised and negated shapes",
    },
    "assumptions": [
        "closed programs: every name read by the original program is bound (ints, bools, containers, receivers, elements)",
        "no floats / NaN, no user-defined __eq__ / __bool__; `is` on ints follows CPython's small-int cache (values kept in [-5, 256] when `is` relates two names)",
        "startswith/endswith/isinstance/issubclass are uninterpreted predicates; a tuple nested in a tuple argument makes startswith/endswith raise TypeError",
        "the evaluator is validated against exec() on sampled programs and every sat model is replayed by exec",
    ],
    "stubs": ["FileContext with a non-existent path (nothing is written)"],
    "outside": ["with-threading-lock, import codemods (order-imports, unused-imports), lazy logging, sql parameterization: statement-level, scope or call-effect semantics beyond the evaluator (the seeded changes C08_a and C02_a live there and are NOT caught)"],
    "rule": "programs = grammar programs pushed through the real pipeline; distinct_nontrivial = programs the codemod changed; disagreements_checked = z3 equivalence queries on changed programs",
    "drivers": [translation_validation, planted],
    "xh": [
        __import__("vlib.main", fromlist=["Xh"]).Xh("use_generator_call", 200, 400),
        __import__("vlib.main", fromlist=["Xh"]).Xh("unnecessary_fstring", 300, 600),
        __import__("vlib.main", fromlist=["Xh"]).Xh("set_literal", 300, 600),
        __import__("vlib.main", fromlist=["Xh"]).Xh("walrus_if", 400, 800),
        __import__("vlib.main", fromlist=["Xh"]).Xh("file_resource_leak", 400, 800),
        __import__("vlib.main", fromlist=["Xh"]).Xh("sql_parameterization", 500, 900),
        __import__("vlib.main", fromlist=["Xh"]).Xh("sql_parameterization_module", 500, 900),
        __import__("vlib.main", fromlist=["Xh"]).Xh("sql_parameterization_carried", 300, 600),
        __import__("vlib.main", fromlist=["Xh"]).Xh("sast_refactorings", 300, 600),
        __import__("vlib.main", fromlist=["Xh"]).Xh("lock_with_statement", 300, 600),
        __import__("vlib.main", fromlist=["Xh"]).Xh("hasattr_call", 300, 600),
        __import__("vlib.main", fromlist=["Xh"]).Xh("lazy_logging_output", 400, 800),
    ],
}
