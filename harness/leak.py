"""fix-file-resource-leak family (C08): selector-built statement programs through the complete real pipeline;
oracle = exec with an instrumented `open` (reads after close raise ValueError)."""
from crosshair.tracers import NoTracing

_REG = None


def _reg():
    global _REG
    if _REG is None:
        from codemodder.registry import load_registered_codemods

        _REG = {c.id: c for c in load_registered_codemods().codemods}
    return _REG


class FakeFile:
    def __init__(self):
        self.closed = False
        self.n = 0

    def read(self):
        if self.closed:
            raise ValueError("I/O operation on closed file")
        self.n += 1
        return "data%d" % self.n

    def close(self):
        self.closed = True

    def __enter__(self):
        return self

    def __exit__(self, *a):
        self.closed = True
        return False


USES = ["a = f.read()", "b = g.read()", "c = 1", "d = [f.read() for _ in range(1)]", "if True:\n    e = f.read()"]


def sel(pool, i):
    k = 0
    while k < len(pool) - 1:
        if i % len(pool) == k:
            return pool[k]
        k += 1
    return pool[len(pool) - 1]


def indent(code, n=4):
    return "".join((" " * n + l if l.strip() else l) for l in code.splitlines(True))


def build(alias: int, u0: int, u1: int, u2: int, wrap: int):
    """alias: 0 none, 1 `g = f` after the open, 2 `f = g = open(..)`, 3 none, but the handle is read through a lambda
    that is defined BEFORE the open and called after it (a read from a nested scope that does not follow the
    assignment)."""
    alias = alias % 4
    pre_reader = alias == 3
    if pre_reader:
        alias = 0
    if alias == 2:
        head = "f = g = open('p')\n"
    else:
        head = ("rd = lambda: f.read()\n" if pre_reader else "") + "f = open('p')\n" + ("g = f\n" if alias == 1 else "g = None\n")
    body = head
    for u in (u0, u1, u2):
        line = sel(USES, u)
        if "g.read" in line and alias == 0:
            line = "c = 2"
        body += line + "\n"
    if pre_reader:
        body += "e = rd()\n"
    init = "a = b = c = d = e = None\n"
    if wrap % 2 == 0:
        return init + body + "r = (a, b, c, d, e)\n"
    return "def k():\n" + indent(init + body + "return (a, b, c, d, e)\n") + "r = k()\n"


def observe(code):
    ns = {"open": lambda *a, **k: FakeFile()}
    try:
        exec(compile(code, "<m>", "exec"), ns)
    except SyntaxError:
        return ("syntax-error",)
    except Exception as e:  # noqa
        return ("exc", type(e).__name__)
    return ("val", repr(ns.get("r")))


def run(src):
    from tv import driver

    with NoTracing():
        try:
            out, _ = driver.run_pipeline(_reg()["pixee:python/fix-file-resource-leak"], src)
        except Exception:  # noqa  (the real pipeline reports the file as failed and leaves it alone)
            out = src
        return observe(src), observe(out), out
