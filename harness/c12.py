"""C12 — no finding is lost or altered between the tool result files and the codemods.

E1 (CrossHair) harnesses over the real merge operators and the real readers.
Symbolic: overlap pattern of rule ids / files (selectors into pools of 2), line/column
ints (unbounded), status selector, presence flags of optional JSON/SARIF fields.
"""
from pathlib import Path
from typing import List, Tuple

import codemodder.codemods.codeql as cm_codeql
import codemodder.codemods.semgrep as cm_semgrep
import codemodder.codeql as codeql_mod
import codemodder.semgrep as semgrep_mod
import core_codemods.defectdojo.api as dd_api
import core_codemods.defectdojo.results as dd_results
import core_codemods.sonar.api as sonar_api
import core_codemods.sonar.results as sonar_results
from codemodder.codetf import Finding, Rule
from codemodder.result import LineInfo, Location, Result, ResultSet
from crosshair.tracers import NoTracing
from vlib import vfs
from vlib.core import NoLog, fin, tier
from vlib.main import Xh

RULES = ["python:S0", "python:S1"]
FILES = [Path("a.py"), Path("b.py")]
N = tier(2, 3)  # results per set
NB = tier(1, 1)  # second operand of the three-set accumulation
N2 = 2  # second operand of the two-set obligations (the first one grows to 3 in the thorough tier)

# warm-up (pydantic validators are built lazily; CrossHair needs determinism)
Finding(id="x", rule=Rule(id="x", name="x", url=None))
sonar_results.logger = NoLog()


class L(Location):
    pass


class R(Result):
    def __hash__(self):
        return id(self)


Item = Tuple[bool, bool]  # (rule selector, file selector); the payload is a concrete unique tag


def same_ms(got: list, exp: list) -> bool:
    """Multiset equality of two lists of <= 2 tuples without sorting symbolic payloads."""
    if len(got) != len(exp):
        return False
    if len(got) <= 1:
        return got == exp
    assert len(got) == 2
    return got == exp or got == [exp[1], exp[0]]


def pick(pool, i):
    """Select a pool member with explicit comparisons: CrossHair forks and the member stays concrete
    (`pool[sym]` would yield a symbolic element that later hits hash()/pathlib/pydantic)."""
    n = len(pool)
    k = 0
    while k < n - 1:
        if i % n == k:
            return pool[k]
        k += 1
    return pool[n - 1]


def keys(items: List[Item]) -> list:
    """Fork once per item on the two selectors; afterwards every key is a concrete (rule, file) pair."""
    out = []
    for r, f in items:
        out.append((RULES[1] if r else RULES[0], FILES[1] if f else FILES[0]))
    return out


def build(ks: list, cls=ResultSet, base: int = 0) -> ResultSet:
    """Result set with one single-location result per key.  What the merge code can depend on is the
    overlap pattern of keys (symbolic, see keys()); the payload (line) is a concrete tag that identifies the
    finding (base + position), which keeps multiset comparison free of symbolic sorting."""
    rs = cls()
    i = 0
    for rule, file in ks:
        with NoTracing():  # constructing the (concrete) payload object is not the subject
            res = R(rule_id=rule, locations=[L(file=file, start=LineInfo(base + i), end=LineInfo(base + i))])
        rs.add_result(res)
        i += 1
    return rs


def flat(rs) -> list:
    """Canonical form of a result set: per (rule, file) key, in pool order, the sorted tags."""
    out = []
    for rule in RULES:
        by_file = rs.get(rule, {})
        for f in FILES:
            tags = [res.locations[0].start.line for res in by_file.get(f, [])]
            with NoTracing():  # tags are concrete ints
                tags = sorted(tags)
            out.append(tags)
    extra = [k for k in rs.keys() if k not in RULES]
    assert not extra, extra
    return out


def spec_items(*key_lists) -> list:
    """Reference: the multiset union of the given (keys, base) pairs, in the same canonical form."""
    with NoTracing():
        groups = {}
        for ks, base in key_lists:
            i = 0
            for rule, f in ks:
                groups.setdefault((rule, str(f)), []).append(base + i)
                i += 1
        return [sorted(groups.get((rule, str(f)), [])) for rule in RULES for f in FILES]


def merge_or(a: List[Item], b: List[Item]) -> bool:
    """ResultSet `|` is the multiset union of its operands (any overlap of rule ids / files).
    pre: len(a) <= N and len(b) <= N2
    post: _
    """
    a, b = keys(a), keys(b)
    ra, rb = build(a, base=100), build(b, base=200)
    m = ra | rb
    ok = flat(m) == spec_items((a, 100), (b, 200))
    # operands are not disturbed
    ok = ok and flat(ra) == spec_items((a, 100)) and flat(rb) == spec_items((b, 200))
    return fin(ok)


def merge_ior(a: List[Item], b: List[Item], c: List[Item]) -> bool:
    """The `|=` accumulation loop used by every process_*_findings keeps every finding.
    pre: len(a) <= N and len(b) <= NB and len(c) <= 1
    post: _
    """
    a, b, c = keys(a), keys(b), keys(c)
    m = ResultSet()
    parts = (build(a, base=100), build(b, base=200), build(c, base=300))
    for part in parts:
        m |= part
    ok = flat(m) == spec_items((a, 100), (b, 200), (c, 300))
    # the right-hand operands (in the real loaders: the cached parse of each result file) are not disturbed
    ok = ok and flat(parts[0]) == spec_items((a, 100)) and flat(parts[1]) == spec_items((b, 200)) and flat(parts[2]) == spec_items((c, 300))
    # ... and combining the same files again gives the same result
    m2 = ResultSet()
    for part in parts:
        m2 |= part
    return fin(ok and flat(m2) == spec_items((a, 100), (b, 200), (c, 300)))


def merge_order_independent(a: List[Item], b: List[Item]) -> bool:
    """Combining files in either order yields the same multiset (both operator forms).
    pre: len(a) <= N and len(b) <= N2
    post: _
    """
    a, b = keys(a), keys(b)
    m1 = build(a, base=100) | build(b, base=200)
    m2 = build(b, base=200) | build(a, base=100)
    m3 = ResultSet()
    m3 |= build(b, base=200)
    m3 |= build(a, base=100)
    return fin(flat(m1) == flat(m2) == flat(m3))


def _loader_stub(table):
    def load(cls_or_name, name=None, *a, **k):
        key = name if name is not None else cls_or_name
        return table[key]

    return load


def process_loops_sonar(a: List[Item], b: List[Item]) -> bool:
    """process_sonar_findings over two result files keeps every finding (see process_loops).
    pre: len(a) <= N and len(b) <= N2
    post: _
    """
    return process_loops(a, b, 0)


def process_loops_semgrep(a: List[Item], b: List[Item]) -> bool:
    """process_semgrep_findings over two result files keeps every finding.
    pre: len(a) <= N and len(b) <= N2
    post: _
    """
    return process_loops(a, b, 1)


def process_loops_codeql(a: List[Item], b: List[Item]) -> bool:
    """process_codeql_findings over two result files keeps every finding.
    pre: len(a) <= N and len(b) <= N2
    post: _
    """
    return process_loops(a, b, 2)


def process_loops_defectdojo(a: List[Item], b: List[Item]) -> bool:
    """defectdojo._process_results over two result files keeps every finding.
    pre: len(a) <= N and len(b) <= N2
    post: _
    """
    return process_loops(a, b, 3)


def process_loops(a, b, which):
    """Real process_{sonar,semgrep,codeql}_findings / defectdojo._process_results over two result
    files (per-file loaders stubbed to return arbitrary result sets): nothing lost."""
    a, b = keys(a), keys(b)
    exp = spec_items((a, 100), (b, 200))
    if which == 0:
        tab = {"f1": build(a, sonar_results.SonarResultSet, 100), "f2": build(b, sonar_results.SonarResultSet, 200)}
        orig = sonar_results.SonarResultSet.from_json
        sonar_results.SonarResultSet.from_json = classmethod(lambda cls, n: tab[n])
        try:
            got = sonar_api.process_sonar_findings.__wrapped__(("f1", "f2"))
        finally:
            sonar_results.SonarResultSet.from_json = orig
    elif which == 1:
        tab = {"f1": build(a, semgrep_mod.SemgrepResultSet, 100), "f2": build(b, semgrep_mod.SemgrepResultSet, 200)}
        orig = semgrep_mod.SemgrepResultSet.from_sarif
        semgrep_mod.SemgrepResultSet.from_sarif = classmethod(lambda cls, n, truncate_rule_id=False: tab[n])
        try:
            got = cm_semgrep.process_semgrep_findings.__wrapped__(("f1", "f2"))
        finally:
            semgrep_mod.SemgrepResultSet.from_sarif = orig
    elif which == 2:
        tab = {"f1": build(a, codeql_mod.CodeQLResultSet, 100), "f2": build(b, codeql_mod.CodeQLResultSet, 200)}
        orig = codeql_mod.CodeQLResultSet.from_sarif
        codeql_mod.CodeQLResultSet.from_sarif = classmethod(lambda cls, n, truncate_rule_id=False: tab[n])
        try:
            got = cm_codeql.process_codeql_findings.__wrapped__(("f1", "f2"))
        finally:
            codeql_mod.CodeQLResultSet.from_sarif = orig
    else:
        tab = {"f1": build(a, dd_results.DefectDojoResultSet, 100), "f2": build(b, dd_results.DefectDojoResultSet, 200)}
        orig = dd_results.DefectDojoResultSet.from_json
        dd_results.DefectDojoResultSet.from_json = classmethod(lambda cls, n: tab[n])
        try:
            got = dd_api._process_results.__wrapped__(("f1", "f2"))
        finally:
            dd_results.DefectDojoResultSet.from_json = orig
    ok = flat(got) == exp
    # the per-file result sets (cached by the real loaders) are not disturbed by having been combined
    ok = ok and flat(tab["f1"]) == spec_items((a, 100)) and flat(tab["f2"]) == spec_items((b, 200))
    return fin(ok)


def lookup(a: List[Item], r: bool, f: bool) -> bool:
    """results_for_rule_and_file / files_for_rule return exactly the findings of that rule and file.
    pre: len(a) <= N + 1
    post: _
    """

    class Ctx:
        directory = Path("/proj")

    ks = keys(a)
    rs = build(ks)
    ((rule, file),) = keys([(r, f)])
    got = rs.results_for_rule_and_file(Ctx, rule, Path("/proj") / file)
    exp = [i for i, (kr, kf) in enumerate(ks) if kr == rule and kf == file]
    exp_files = sorted({str(kf) for (kr, kf) in ks if kr == rule})
    files = sorted(str(p) for p in rs.files_for_rule(rule))
    return fin(sorted(x.locations[0].start.line for x in got) == exp and files == exp_files)


# ---------------------------------------------------------------- Sonar reader
IDS = [7, 8, 9]
# Sonar component keys are <projectKey>:<path>; a project key may itself contain colons, or be absent
COMPONENT_PREFIX = ["proj:", "org.example:proj:", ""]
STATUSES = ["OPEN", "TO_REVIEW", "CLOSED", "RESOLVED", "open", "REVIEWED"]  # REVIEWED: a closed hotspot


def _sonar_entry(sel: int, status: int, use_rulekey: bool, has_key: bool, sl: int, so: int, el: int, eo: int, idx: int):
    d = {"status": pick(STATUSES, status), "component": pick(COMPONENT_PREFIX, sel // 4) + str(pick(FILES, sel)), "textRange": {"startLine": sl, "startOffset": so, "endLine": el, "endOffset": eo}}
    d["ruleKey" if use_rulekey else "rule"] = pick(RULES, sel // 2)
    if has_key:
        d["key"] = "K%d" % idx
    return d


def _run_sonar(data):
    log = NoLog()
    sonar_results.logger = log

    class F:
        def __enter__(self):
            return self

        def __exit__(self, *a):
            return False

    vfs.json_file("f.json", data)  # also reachable through builtins.open / Path.read_text + json.load(s)
    sonar_results.open = lambda *a, **k: F()
    sonar_results.json = type("J", (), {"load": staticmethod(lambda f: data), "loads": staticmethod(lambda s_: data)})
    try:
        rs = sonar_results.SonarResultSet.from_json.__wrapped__(sonar_results.SonarResultSet, "f.json")
    finally:
        import json as _json

        sonar_results.json = _json
        del sonar_results.open
    got = []
    for rule, by_file in rs.items():
        for f, lst in by_file.items():
            for res in lst:
                loc = res.locations[0]
                got.append((rule, str(f), loc.start.line, loc.start.column, loc.end.line, loc.end.column, res.finding_id))
                assert res.rule_id == rule and loc.file == f and res.finding.rule.id == rule
    return got, log


def _sonar_exp(entries):
    exp = []
    for i, e in enumerate(entries):
        sel, status, use_rulekey, has_key, sl, so, el, eo = e
        if pick(STATUSES, status).lower() in ("open", "to_review"):
            rule = pick(RULES, sel // 2)
            exp.append((rule, str(pick(FILES, sel)), sl, so, el, eo, ("K%d" % i) if has_key else rule))
    return exp


def sonar_reader(e1: Tuple[int, int, bool, bool, int, int, int, int], n: int, hotspots: bool) -> bool:
    """SonarResultSet.from_json (json.load stubbed), one entry with every field symbolic: an open / to-review
    entry arrives with its rule, file, range and key; a closed one is dropped; nothing is raised.
    pre: 0 <= n <= 1
    post: _
    """
    ents = [e1][:n]
    entries = [_sonar_entry(*e, idx=i) for i, e in enumerate(ents)]
    data = {"hotspots": entries} if hotspots else {"issues": entries, "hotspots": []}
    got, log = _run_sonar(data)
    return fin(log.exceptions == 0 and same_ms(got, _sonar_exp(ents)))


def sonar_reader_pair(s1: int, closed1: bool, s2: int, closed2: bool, hotspots: bool, sl: int, so: int, mixed: bool = False) -> bool:
    """Two entries (every overlap of rule/file keys, open/closed): a closed or foreign-key entry never
    disturbs the other one - also when ONE file lists the first under `issues` and the second under `hotspots`.
    post: _
    """
    if mixed:
        hotspots = True
    ents = [(s1, 2 if closed1 else 0, False, True, sl, so, sl, so + 1), (s2 % 4, (5 if hotspots else 3) if closed2 else 1, hotspots, False, 7, 1, 7, 9)]
    entries = [_sonar_entry(*e, idx=i) for i, e in enumerate(ents)]
    if mixed:
        data = {"issues": entries[:1], "hotspots": entries[1:]}
    else:
        data = {"hotspots": entries} if hotspots else {"issues": entries, "hotspots": []}
    got, log = _run_sonar(data)
    return fin(log.exceptions == 0 and same_ms(got, _sonar_exp(ents)))


# ---------------------------------------------------------------- SARIF readers
def _sarif_loc(f: int, sl: int, sc: int, el: int, ec: int, with_end: bool = True, with_cols: bool = True, with_region: bool = True):
    phys = {"artifactLocation": {"uri": str(pick(FILES, f))}}
    if with_region:
        region = {"startLine": sl}
        if with_cols:
            region["startColumn"] = sc
        if with_end:
            region["endLine"] = el
            if with_cols:
                region["endColumn"] = ec
        phys["region"] = region
    return {"physicalLocation": phys}


def semgrep_reader(r1: Tuple[int, int, int, int, int, int], r2: Tuple[int, int, int, int, int, int], n: int, split_runs: bool, truncate: bool) -> bool:
    """SemgrepResultSet.from_sarif (json.load stubbed): every result of every run arrives intact.
    pre: 0 <= n <= 2
    post: _
    """
    rs_in = [r1, r2][:n]
    results = []
    for rsel, f, sl, sc, el, ec in rs_in:
        results.append({"ruleId": "dir.sub." + pick(RULES, rsel), "locations": [_sarif_loc(f, sl, sc, el, ec)]})
    tool = {"driver": {"name": "Semgrep OSS"}}
    if split_runs:
        data = {"runs": [{"tool": tool, "results": results[:1]}, {"tool": tool, "results": results[1:]}]}
    else:
        data = {"runs": [{"tool": tool, "results": results}]}

    class F:
        def __enter__(self):
            return self

        def __exit__(self, *a):
            return False

    vfs.json_file("x.sarif", data)
    semgrep_mod.open = lambda *a, **k: F()
    semgrep_mod.json = type("J", (), {"load": staticmethod(lambda f: data), "loads": staticmethod(lambda s_: data)})
    try:
        rs = semgrep_mod.SemgrepResultSet.from_sarif("x.sarif", truncate_rule_id=truncate)
    finally:
        import json as _json

        semgrep_mod.json = _json
        del semgrep_mod.open
    exp = list(((pick(RULES, rsel) if truncate else "dir.sub." + pick(RULES, rsel)), str(pick(FILES, f)), sl, sc, el, ec) for rsel, f, sl, sc, el, ec in rs_in)
    got = []
    for rule, by_file in rs.items():
        for f, lst in by_file.items():
            for res in lst:
                loc = res.locations[0]
                assert res.rule_id == rule and res.finding_id == rule and res.finding.id == rule
                got.append((rule, str(f), loc.start.line, loc.start.column, loc.end.line, loc.end.column))
    return fin(same_ms(got, exp))


import types as _types

import codemodder.sarifs as sarifs_mod

TOOLS = ["Semgrep OSS", "CodeQL", "other tool", "semgrep PRO", None]  # None: a malformed run without driver name (skipped on its own)


class _EPs:
    def select(self, group=None):
        return [
            _types.SimpleNamespace(name="semgrep", load=lambda: semgrep_mod.SemgrepSarifToolDetector),
            _types.SimpleNamespace(name="codeql", load=lambda: codeql_mod.CodeQLSarifToolDetector),
        ]


def _tool_of(name):
    if name is None:
        return None
    return "semgrep" if "semgrep" in name.lower() else ("codeql" if "CodeQL" in name else None)


def sarif_tool_detection(n_files: int, two0: bool, two1: bool, t00: int, t01: int, t10: int, t11: int) -> bool:
    """detect_sarif_tools over 1-2 SARIF files of 1-2 runs each, every run's tool chosen from {Semgrep OSS, CodeQL,
    another tool, semgrep PRO, a malformed run without driver name}: unless the input is rejected loudly (DuplicateToolError, only when some tool has two
    runs), EVERY run of a registered tool has its file listed under that tool - a file mixing runs of two tools
    is listed under both - and no file is listed under a tool it has no run of.
    pre: 1 <= n_files <= 2
    post: _
    """
    spec = [[t00] + ([t01] if two0 else []), [t10] + ([t11] if two1 else [])][:n_files]
    files = []
    runs_of = []
    for i, sels in enumerate(spec):
        names = [pick(TOOLS, t) for t in sels]
        data = {"runs": [{"tool": {"driver": ({"name": nm} if nm is not None else {})}, "results": []} for nm in names]}
        vfs.json_file("/s/f%d.sarif" % i, data)
        files.append(Path("/s/f%d.sarif" % i))
        runs_of.append([_tool_of(nm) for nm in names])
    saved, saved_log = sarifs_mod.entry_points, sarifs_mod.logger
    sarifs_mod.entry_points = lambda: _EPs()
    sarifs_mod.logger = NoLog()
    try:
        got = sarifs_mod.detect_sarif_tools(files)
    except sarifs_mod.DuplicateToolError:
        counts = {}
        for rs in runs_of:
            for t in rs:
                if t is not None:
                    counts[t] = counts.get(t, 0) + 1
        return fin(any(c >= 2 for c in counts.values()))
    finally:
        sarifs_mod.entry_points, sarifs_mod.logger = saved, saved_log
    ok = True
    for f, rs in zip(files, runs_of):
        for t in ("semgrep", "codeql"):
            listed = str(f) in got.get(t, [])
            ok = ok and (listed == (t in rs))
    return fin(ok)


def result_files_reach_the_context(n_sarif: int, t0: int, t1: int, has_sonar: bool, has_dd: bool, hotspots: bool) -> bool:
    """codemodder.run(): every result file named on the command line (--sarif by detected tool, --sonar-issues-json AND
    --sonar-hotspots-json together, --defectdojo-findings-json) is in the tool map handed to the execution context -
    none replaces another (real run() on the C20 skeleton, all files existing).
    pre: 0 <= n_sarif <= 2
    post: _
    """
    from harness import c20

    return c20.run_status(True, n_sarif, t0, t1, True, True, has_sonar, True, has_dd, True, 0, 0, 0, 0, False, True, True, False, hotspots, False, True)


def codeql_reader(r1: Tuple[int, int, int, int, int, int], r2: Tuple[int, int, int, int, int, int], tool1: int, tool2: int, shape: int) -> bool:
    """CodeQLResultSet.from_sarif: results of CodeQL runs arrive intact (optional region fields defaulted
    as documented), runs of other tools are ignored without disturbing the rest.
    pre: 0 <= shape < 4
    post: _
    """
    tools = ["CodeQL", "Semgrep OSS", "other"]
    with_region = shape != 3
    with_end = shape == 0
    with_cols = shape in (0, 1)
    runs = []
    exp = []
    for (rsel, f, sl, sc, el, ec), t in ((r1, tool1), (r2, tool2)):
        res = {"ruleId": pick(RULES, rsel), "locations": [_sarif_loc(f, sl, sc, el, ec, with_end, with_cols, with_region)]}
        runs.append({"tool": {"driver": {"name": pick(tools, t)}}, "results": [res]})
        if pick(tools, t) == "CodeQL":
            if not with_region:
                exp.append((pick(RULES, rsel), str(pick(FILES, f)), 0, -1, 0, -1))
            else:
                c0 = sc if with_cols else 1  # SARIF default
                exp.append((pick(RULES, rsel), str(pick(FILES, f)), sl, c0, el if with_end else sl, (ec if with_cols else 1) if with_end else c0))
    data = {"runs": runs}

    class F:
        def __enter__(self):
            return self

        def __exit__(self, *a):
            return False

    vfs.json_file("x.sarif", data)
    codeql_mod.open = lambda *a, **k: F()
    codeql_mod.json = type("J", (), {"load": staticmethod(lambda f: data), "loads": staticmethod(lambda s_: data)})
    try:
        rs = codeql_mod.CodeQLResultSet.from_sarif("x.sarif")
    finally:
        import json as _json

        codeql_mod.json = _json
        del codeql_mod.open
    got = []
    for rule, by_file in rs.items():
        for f, lst in by_file.items():
            for res in lst:
                loc = res.locations[0]
                got.append((rule, str(f), loc.start.line, loc.start.column, loc.end.line, loc.end.column))
                if with_region and (loc.start.column is None or loc.end.column is None):
                    return False  # a column left as None makes match_location raise TypeError for every node
    return fin(same_ms(got, exp))


def defectdojo_reader(r1: Tuple[int, int, int, int], r2: Tuple[int, int, int, int], n: int) -> bool:
    """DefectDojoResultSet.from_json: every finding arrives with its id, title, file and line.
    pre: 0 <= n <= 2
    post: _
    """
    rs_in = [r1, r2][:n]
    data = {"results": [{"id": fid, "title": pick(RULES, rsel), "file_path": str(pick(FILES, f)), "line": line} for rsel, f, line, fid in rs_in]}
    for d in data["results"]:
        d["id"] = pick(IDS, d["id"])

    class F:
        def __enter__(self):
            return self

        def __exit__(self, *a):
            return False

    vfs.json_file("x.json", data)
    dd_results.open = lambda *a, **k: F()
    dd_results.json = type("J", (), {"load": staticmethod(lambda f: data), "loads": staticmethod(lambda s_: data)})
    try:
        rs = dd_results.DefectDojoResultSet.from_json.__wrapped__(dd_results.DefectDojoResultSet, "x.json")
    finally:
        import json as _json

        dd_results.json = _json
        del dd_results.open
    exp = list((pick(RULES, rsel), str(pick(FILES, f)), line, pick(IDS, fid)) for rsel, f, line, fid in rs_in)
    got = []
    for rule, by_file in rs.items():
        for f, lst in by_file.items():
            for res in lst:
                loc = res.locations[0]
                assert loc.end.line == loc.start.line
                got.append((rule, str(f), loc.start.line, res.finding_id))
    return fin(same_ms(got, exp))


def rule_id_extraction(has_rule_id: bool, tool_index: int, rule_index: int, truncate: bool) -> bool:
    """SarifResult.extract_rule_id: direct ruleId, or the indexed rule of the indexed tool extension.
    pre: 0 <= tool_index < 2 and 0 <= rule_index < 2
    post: _
    """
    from codemodder.result import SarifResult

    exts = [{"rules": [{"id": "e%d.r%d" % (t, r)} for r in range(2)]} for t in range(2)]
    run = {"tool": {"extensions": exts}}
    if has_rule_id:
        res = {"ruleId": "a.b.c"}
        exp = "c" if truncate else "a.b.c"
    else:
        res = {"rule": {"toolComponent": {"index": tool_index}, "index": rule_index}}
        exp = "e%d.r%d" % (tool_index, rule_index)
    return fin(SarifResult.extract_rule_id(res, run, truncate) == exp)


def planted_merge_defect(a: List[Item], b: List[Item]) -> bool:
    """Self-test: a merge that lets the right operand overwrite per-file lists must be refuted.
    pre: len(a) <= 2 and len(b) <= 2
    post: _
    """
    a, b = keys(a), keys(b)
    ra, rb = build(a, base=100), build(b, base=200)
    m = dict(ra)
    for k, v in rb.items():
        m[k] = {**m.get(k, {}), **v}
    return flat(ResultSet(m)) == spec_items((a, 100), (b, 200))


SPEC = {
    "property": "C12",
    "level": "model_checking",
    "files": [
        "src/codemodder/result.py", "src/codemodder/sarifs.py",
        "src/codemodder/semgrep.py",
        "src/codemodder/codeql.py",
        "src/codemodder/codemods/semgrep.py",
        "src/codemodder/codemods/codeql.py",
        "src/core_codemods/sonar/results.py",
        "src/core_codemods/sonar/api.py",
        "src/core_codemods/defectdojo/results.py",
        "src/core_codemods/defectdojo/api.py",
    ],
    "functions": [
        "codemodder.result.ResultSet.add_result/__or__/(inherited or defined) __ior__/results_for_rule_and_file/files_for_rule",
        "codemodder.result.list_dict_or",
        "codemodder.result.SarifResult.extract_rule_id/extract_locations",
        "core_codemods.sonar.api.process_sonar_findings",
        "codemodder.codemods.semgrep.process_semgrep_findings",
        "codemodder.codemods.codeql.process_codeql_findings",
        "core_codemods.defectdojo.api._process_results",
        "core_codemods.sonar.results.SonarResultSet.from_json / SonarResult.from_result / SonarLocation.from_json_location",
        "codemodder.semgrep.SemgrepResultSet.from_sarif / SemgrepResult.from_sarif / SemgrepLocation.from_sarif",
        "codemodder.codeql.CodeQLResultSet.from_sarif / CodeQLResult.from_sarif / CodeQLLocation.from_sarif",
        "core_codemods.defectdojo.results.DefectDojoResultSet.from_json / DefectDojoResult.from_result",
        "codemodder.sarifs.detect_sarif_tools + SemgrepSarifToolDetector.detect / CodeQLSarifToolDetector.detect",
    ],
    "bounds": {
        "quick": "<= 2 results per result set, <= 3 sets per merge; rule ids and files are selectors into pools of 2 (every overlap pattern); line/column ints unbounded; <= 2 entries per JSON/SARIF document",
        "thorough": "first operand <= 3 results, second operand <= 2, otherwise as quick",
    },
    "assumptions": [
        "one location per result (a result with several locations is indexed once per location by design)",
        "json.load / open are stubbed: the decoded document is built from symbolic parts (real JSON decoding is native and trusted)",
        "functools.cache wrappers are bypassed via __wrapped__",
        "a Sonar file carries either issues or hotspots, as the Sonar API produces them",
    ],
    "stubs": ["json.load", "open", "logger (empty bodies; logger.exception calls counted and asserted zero)", "per-file loaders in process_loops"],
    "outside": ["real JSON decoding", "results with several locations", "SARIF files of more than 2 runs"],
    "xh": [
        Xh("merge_or", 150, 1200),
        Xh("merge_ior", 150, 1500),
        Xh("merge_order_independent", 150, 1200),
        Xh("process_loops_sonar", 150, 1200),
        Xh("process_loops_semgrep", 150, 1200),
        Xh("process_loops_codeql", 150, 1200),
        Xh("process_loops_defectdojo", 150, 1200),
        Xh("lookup", 120, 900),
        Xh("sonar_reader", 240, 600),
        Xh("sonar_reader_pair", 240, 600),
        Xh("semgrep_reader", 120, 400),
        Xh("codeql_reader", 120, 400),
        Xh("sarif_tool_detection", 120, 300),
        Xh("result_files_reach_the_context", 200, 400),
        Xh("defectdojo_reader", 90, 300),
        Xh("rule_id_extraction", 60, 120),
        Xh("planted_merge_defect", 60, 120, twin=False, expect="refuted"),
    ],
}


def warmup():
    z8 = (0, 0, False, True, 1, 2, 3, 4)
    z2 = (1, 2)
    merge_ior([(False, False)], [(True, True)], [(False, True)])
    lookup([(False, False), (True, True)], False, False)
    try:
        merge_or([(False, False)], [(False, False)])
        merge_order_independent([(False, False)], [(False, False)])
    except Exception:
        pass
    for w in range(4):
        process_loops([(False, False)], [(False, False)], w)
    sonar_reader(z8, 1, False)
    sonar_reader_pair(0, False, 1, True, False, 1, 2)
    semgrep_reader((0, 0, 1, 2, 3, 4), (1, 1, 1, 2, 3, 4), 2, True, True)
    for sh in range(4):
        codeql_reader((0, 0, 1, 2, 3, 4), (1, 1, 1, 2, 3, 4), 0, 1, sh)
    defectdojo_reader((0, 0, 1, 0), (1, 1, 2, 1), 2)
    sarif_tool_detection(2, True, False, 0, 1, 2, 3)
    result_files_reach_the_context(1, 0, 1, True, True, True)
    sarif_tool_detection(2, True, False, 0, 0, 2, 3)
    rule_id_extraction(False, 1, 1, True)
