"""use-walrus-if family (C08 / C02): selector-built statement programs through the complete real pipeline;
oracle = exec of both modules (values of r, r2 and the raised exception type)."""
from crosshair.tracers import NoTracing

TESTS = ["x", "x is not None", "x != 0", "x == 1", "not x"]
VALUES = ["0", "1", "None", "[]"]
BODIES = ["r = x", "r = 'taken'"]
TAILS = ["", "r2 = x", "def h():\n    return x\nr2 = h()", "r2 = [x for _ in range(1)]", "x = 5\nr2 = x"]
_REG = None


def _reg():
    global _REG
    if _REG is None:
        from codemodder.registry import load_registered_codemods

        _REG = {c.id: c for c in load_registered_codemods().codemods}
    return _REG


def sel(pool, i):
    k = 0
    while k < len(pool) - 1:
        if i % len(pool) == k:
            return pool[k]
        k += 1
    return pool[len(pool) - 1]


def indent(code, n=4):
    return "".join((" " * n + l if l.strip() else l) for l in code.splitlines(True))


def build(test: int, value: int, body: int, tail: int, wrap: int):
    """wrap: 0 module level, 1 inside a function, 2 inside a loop with a read of x above the assignment."""
    core = "x = g()\nif %s:\n    %s\nelse:\n    r = 'not taken'\n%s" % (sel(TESTS, test), sel(BODIES, body), (sel(TAILS, tail) + "\n") if sel(TAILS, tail) else "")
    pre = "def g():\n    return %s\nr = r2 = None\n" % sel(VALUES, value)
    if wrap % 3 == 0:
        return pre + core
    if wrap % 3 == 1:
        return pre + "def f():\n    global r, r2\n" + indent(core) + "f()\n"
    return pre + "seen = []\nx = 'init'\nfor _i in range(2):\n    seen.append(x)\n" + indent(core)


def observe(code):
    ns = {}
    try:
        exec(compile(code, "<m>", "exec"), ns)
    except SyntaxError:
        return ("syntax-error",)
    except Exception as e:  # noqa
        return ("exc", type(e).__name__)
    return ("val", repr(ns.get("r")), repr(ns.get("r2")), repr(ns.get("seen")))


def run(src):
    from tv import driver

    with NoTracing():
        out, _ = driver.run_pipeline(_reg()["pixee:python/use-walrus-if"], src)
        return observe(src), observe(out), out
