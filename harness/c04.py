"""C04 — --dry-run never touches the project and predicts the real run.

Two-run hyper-properties inside one harness body: the real pipeline / writer is executed twice on equal
stubs, once with dry_run=True and once with dry_run=False; the dry run must perform no mutation and must
return the same ChangeSet, failures and unfixed findings as the real run.  Symbolic: every outcome flag.
"""
from pathlib import Path

import codemodder.context as _ctxmod
import codemodder.dependency_management.pyproject_writer as pw
import codemodder.dependency_management.requirements_txt_writer as rw
import codemodder.dependency_management.setup_py_writer as sw
import codemodder.dependency_management.setupcfg_writer as cw
from codemodder.dependency import DefusedXML, Security
from codemodder.dependency_management import DependencyManager
from codemodder.project_analysis.file_parsers.package_store import FileType, PackageStore
from harness import skel
from crosshair.tracers import NoTracing
import libcst as _cst
import tomlkit as _tomlkit
from vlib.core import NoLog, fin
from vlib.main import Xh
from vlib.stubs import FakeFS

for _m in (pw, rw, sw, cw, _ctxmod):
    if hasattr(_m, "logger"):
        _m.logger = NoLog()


def _same(o_dry, o_real) -> bool:
    return o_dry.writes == [] and o_dry.other == [] and o_dry.key() == o_real.key()


def dry_libcst(kind: int, r1: bool, c1: bool, a1: bool, r2: bool, c2: bool, a2: bool, nf: int) -> bool:
    """LibcstTransformerPipeline.apply: dry run writes nothing and returns what the real run returns.
    pre: 0 <= kind < 5 and 0 <= nf <= 1
    post: _
    """
    _, _, od = skel.run_libcst(kind, True, (r1, c1, a1), (r2, c2, a2), nf)
    _, _, orr = skel.run_libcst(kind, False, (r1, c1, a1), (r2, c2, a2), nf)
    return fin(_same(od, orr))


def dry_regex(kind: int, matches: bool, sast: bool, nf: int, line: int) -> bool:
    """Regex / SastRegex pipelines: dry run writes nothing and predicts the real run.
    pre: 0 <= kind < 3 and 0 <= nf <= 1 and 1 <= line <= 3
    post: _
    """
    _, _, od = skel.run_regex(kind, True, matches, sast, nf, line)
    _, _, orr = skel.run_regex(kind, False, matches, sast, nf, line)
    return fin(_same(od, orr))


def dry_xml(bad: bool, vanished: bool, target: bool, nf: int, line: int, results_none: bool) -> bool:
    """XML pipeline: dry run writes nothing and predicts the real run.
    pre: 0 <= nf <= 1 and 1 <= line <= 3
    post: _
    """
    _, _, od = skel.run_xml(bad, vanished, True, target, nf, line, results_none)
    _, _, orr = skel.run_xml(bad, vanished, False, target, nf, line, results_none)
    return fin(_same(od, orr))


# ------------------------------------------------------------------ manifest writers
REQ_TXT = {0: "requests==2.31.0\n# comment\nflask\n", 1: "requests==2.31.0", 2: "defusedxml==0.7.0\n",
           # a manifest that is not UTF-8 (PowerShell `pip freeze >` writes UTF-16 with a BOM): codemodder cannot update it
           3: "requests==2.31.0\n".encode("utf-16")}
SETUP_CFG = {
    0: "[metadata]\nname = x\n\n[options]\ninstall_requires =\n    requests\n    flask\n\n[options.extras_require]\ntest = pytest\n",
    1: "[options]\ninstall_requires = requests, flask\n",
    2: "[metadata]\nname = x\n",
}
PYPROJECT = {
    0: '[project]\nname = "x"\ndependencies = [\n    "requests",\n]\n',
    1: '[tool.poetry]\nname = "x"\n\n[tool.poetry.dependencies]\npython = "^3.10"\nrequests = "*"\n',
    2: '[project]\nname = "x"\n',
}
SETUP_PY = {
    0: 'from setuptools import setup\n\nsetup(\n    name="x",\n    install_requires=[\n        "requests",\n    ],\n)\n',
    1: 'from setuptools import setup\n\nsetup(name="x", install_requires=["requests"])\n',
    2: 'from setuptools import setup\n\nsetup(name="x")\n',
}


def _store(kind: int, variant: int, declared: bool):
    ft = (FileType.REQ_TXT, FileType.SETUP_CFG, FileType.TOML, FileType.SETUP_PY)[kind]
    text = (REQ_TXT, SETUP_CFG, PYPROJECT, SETUP_PY)[kind][variant]
    path = "/d/" + ft.value
    deps = {"requests", "flask"} | ({"defusedxml==0.7.1"} if declared else set())
    return PackageStore(type=ft, file=Path(path), dependencies=deps, py_versions=[]), path, text


class _CP:
    """configparser shim: ConfigParser().read(path) reads from the fake file system."""

    fs = None
    ParsingError = cw.configparser.ParsingError

    @staticmethod
    def ConfigParser():
        import configparser

        cp = configparser.ConfigParser()
        real_read_string = cp.read_string

        def read(path, *a, **k):
            real_read_string(_CP.fs.files[str(path)])

        cp.read = read
        return cp


class _Untraced:
    """Wrap a module so that the listed callables run with CrossHair's tracer switched off.  Only used for
    third-party / heavy code that receives exclusively concrete values (tomlkit, the libcst transformer run of
    SetupPyAddDependencies): without symbolic inputs tracing cannot change the result, it only costs time."""

    def __init__(self, target, names):
        self._t, self._n = target, names

    def __getattr__(self, k):
        v = getattr(self._t, k)
        if k in self._n:

            def call(*a, **kw):
                with NoTracing():
                    return v(*a, **kw)

            return call
        return v


_orig_transform_module = sw.SetupPyAddDependencies.transform_module


_OrigAdder = sw.SetupPyAddDependencies


def _untraced_adder(*a, **kw):
    with NoTracing():  # libcst matcher-visitor construction: concrete inputs only
        return _OrigAdder(*a, **kw)


def _untraced_transform_module(self, tree):
    with NoTracing():
        return _orig_transform_module(self, tree)


def _run_writer(kind: int, variant: int, declared: bool, two_deps: bool, dry_run: bool):
    store, path, text = _store(kind, variant, declared)
    pw.tomlkit = _Untraced(_tomlkit, ("load", "loads", "dump", "dumps"))
    _OrigAdder.transform_module = _untraced_transform_module
    sw.cst = _Untraced(_cst, ("parse_module", "MetadataWrapper"))
    sw.SetupPyAddDependencies = _untraced_adder
    fs = FakeFS({path: text})
    for m in (pw, rw, sw, cw):
        m.open = fs.open
    _CP.fs = fs
    cw.configparser = _CP
    deps = [DefusedXML, Security] if two_deps else [DefusedXML]
    exc = None
    cs = None
    try:
        cs = DependencyManager(store, Path("/d")).write(deps, dry_run)
    except Exception as e:  # noqa
        exc = type(e).__name__
    finally:
        import configparser

        cw.configparser = configparser
        pw.tomlkit = _tomlkit
        sw.cst = _cst
        sw.SetupPyAddDependencies = _OrigAdder
        _OrigAdder.transform_module = _orig_transform_module
        for m in (pw, rw, sw, cw):
            del m.open
    obs = None if cs is None else (cs.path, cs.diff, [(c.lineNumber, c.description) for c in cs.changes])
    return fs, obs, exc, text, path


def _run_writer_twice(kind: int, variant: int):
    """Two dependency updates of one run against the same manifest (what two dependency-adding codemods cause):
    returns the file system, both ChangeSets' diffs, the original text and the path."""
    store, path, text = _store(kind, variant, False)
    pw.tomlkit = _Untraced(_tomlkit, ("load", "loads", "dump", "dumps"))
    _OrigAdder.transform_module = _untraced_transform_module
    sw.cst = _Untraced(_cst, ("parse_module", "MetadataWrapper"))
    sw.SetupPyAddDependencies = _untraced_adder
    fs = FakeFS({path: text})
    for m in (pw, rw, sw, cw):
        m.open = fs.open
    _CP.fs = fs
    cw.configparser = _CP
    diffs, exc = [], None
    try:
        for dep in (DefusedXML, Security):
            cs = DependencyManager(store, Path("/d")).write([dep], False)
            diffs.append(None if cs is None else cs.diff)
    except Exception as e:  # noqa
        exc = type(e).__name__
    finally:
        import configparser

        cw.configparser = configparser
        pw.tomlkit = _tomlkit
        sw.cst = _cst
        sw.SetupPyAddDependencies = _OrigAdder
        _OrigAdder.transform_module = _orig_transform_module
        for m in (pw, rw, sw, cw):
            del m.open
    return fs, diffs, exc, text, path


def _dry_writer(kind: int, variant: int, declared: bool, two_deps: bool) -> bool:
    fs_d, obs_d, exc_d, text, path = _run_writer(kind, variant, declared, two_deps, True)
    fs_r, obs_r, exc_r, _, _ = _run_writer(kind, variant, declared, two_deps, False)
    ok = fs_d.writes == [] and fs_d.files[path] == text
    ok = ok and obs_d == obs_r and exc_d == exc_r
    # real run: a ChangeSet iff the manifest was rewritten
    ok = ok and ((obs_r is None) == (fs_r.writes == []))
    return fin(ok)


def dry_writer_requirements(variant: int, declared: bool, two_deps: bool) -> bool:
    """DependencyManager.write -> RequirementsTxtWriter: with dry_run the manifest is never opened for writing
    and the ChangeSet equals the one of the real run; real run: ChangeSet <=> manifest rewritten.
    pre: 0 <= variant < 4
    post: _
    """
    return _dry_writer(0, variant, declared, two_deps)


def dry_writer_setupcfg(variant: int, declared: bool, two_deps: bool) -> bool:
    """Same for SetupCfgWriter.
    pre: 0 <= variant < 3
    post: _
    """
    return _dry_writer(1, variant, declared, two_deps)


def dry_writer_pyproject(variant: int, declared: bool, two_deps: bool) -> bool:
    """Same for PyprojectWriter (tomlkit runs untraced on concrete text).
    pre: 0 <= variant < 3
    post: _
    """
    return _dry_writer(2, variant, declared, two_deps)


def dry_writer_setuppy(variant: int, declared: bool, two_deps: bool) -> bool:
    """Same for SetupPyWriter (the libcst transformer run is untraced on a concrete tree).
    pre: 0 <= variant < 3
    post: _
    """
    return _dry_writer(3, variant, declared, two_deps)


def dry_apply_codemods_dependencies(declared: bool, two: bool) -> bool:
    """apply_codemods with a dependency-adding codemod, dry vs real (real DependencyManager / RequirementsTxtWriter over
    an in-memory manifest): the dry run leaves the manifest alone and reports the same manifest changeset and the same
    dependency-update outcome (which drives the description's notice) as the real run.
    post: _
    """
    from harness import c09

    return fin(c09._dry_vs_real_dependencies(declared, two))


class _RepoMgr:
    def __init__(self, stores):
        self.package_stores = stores


def dry_process_dependencies(n_stores: int, ok0: bool, ok1: bool, ok2: bool, dry_run: bool, has_deps: bool) -> bool:
    """CodemodExecutionContext.process_dependencies over n <= 3 manifests whose writers succeed or decline
    (symbolic): every writer is invoked with the context's dry_run flag, stores are tried in order until the
    first success, at most one store is recorded, and the recorded ChangeSet is that writer's.
    pre: 0 <= n_stores <= 3
    post: _
    """
    import codemodder.dependency_management as dm_pkg
    from codemodder.codetf import Change, ChangeSet
    from codemodder.context import CodemodExecutionContext

    oks = [ok0, ok1, ok2][:n_stores]
    stores = [PackageStore(type=FileType.REQ_TXT, file=Path("/d/req%d.txt" % i), dependencies=set(), py_versions=[]) for i in range(n_stores)]
    calls = []

    class DM:
        def __init__(self, store, directory):
            self.store = store

        def write(self, dependencies, dry_run=False):
            idx = stores.index(self.store)
            calls.append((idx, dry_run))
            if oks[idx]:
                return ChangeSet(path="req%d.txt" % idx, diff="d", changes=[Change(lineNumber=1, description="x")])
            return None

    with NoTracing():
        ctx = CodemodExecutionContext(Path("/d"), dry_run, False, None, None, _RepoMgr(stores), [], [], {}, 1)
    if has_deps:
        ctx.add_dependencies("cm", {DefusedXML})
    orig = dm_pkg.DependencyManager
    dm_pkg.DependencyManager = DM
    try:
        record = ctx.process_dependencies("cm")
    finally:
        dm_pkg.DependencyManager = orig
    if not has_deps:
        return fin(calls == [] and record == {} and ctx.get_changesets("cm") == [])
    first_ok = None
    for i, ok in enumerate(oks):
        if ok:
            first_ok = i
            break
    exp_calls = [(i, dry_run) for i in range(n_stores if first_ok is None else first_ok + 1)]
    okk = calls == exp_calls
    if first_ok is None:
        okk = okk and ctx.get_changesets("cm") == [] and record == {DefusedXML: None}
    else:
        okk = okk and [c.path for c in ctx.get_changesets("cm")] == ["req%d.txt" % first_ok] and record == {DefusedXML: stores[first_ok]}
        okk = okk and ctx._dependency_update_by_codemod.get("cm") is stores[first_ok]
    return fin(okk)


def planted_dry_write(kind: int, c1: bool, a1: bool) -> bool:
    """Self-test: a pipeline that ignores dry_run must be refuted.
    pre: 0 <= kind < 4
    post: _
    """
    import codemodder.codemods.libcst_transformer as lt

    class AlwaysWet(skel.Ctx):
        @property
        def dry_run(self):
            return False

        @dry_run.setter
        def dry_run(self, v):
            pass

    orig = skel.Ctx
    skel.Ctx = AlwaysWet
    try:
        _, _, od = skel.run_libcst(kind, True, (False, c1, a1), (False, False, False), 0)
    finally:
        skel.Ctx = orig
    return od.writes == []


def warmup():
    skel.warm()
    for k in range(4):
        for v in range(4 if k == 0 else 3):
            for d in (False, True):
                _run_writer(k, v, d, True, True)
                _run_writer(k, v, d, False, False)
    dry_libcst(0, False, True, True, False, True, True, 1)
    dry_process_dependencies(3, False, True, False, True, True)
    dry_regex(0, True, True, 1, 2)
    dry_xml(False, False, True, 1, 2, False)


SPEC = {
    "property": "C04",
    "level": "model_checking",
    "files": [
        "src/codemodder/codemods/libcst_transformer.py",
        "src/codemodder/codemods/regex_transformer.py",
        "src/codemodder/codemods/xml_transformer.py",
        "src/codemodder/context.py",
        "src/codemodder/dependency_management/dependency_manager.py",
        "src/codemodder/dependency_management/base_dependency_writer.py",
        "src/codemodder/dependency_management/requirements_txt_writer.py",
        "src/codemodder/dependency_management/setupcfg_writer.py",
        "src/codemodder/dependency_management/pyproject_writer.py",
        "src/codemodder/dependency_management/setup_py_writer.py",
    ],
    "functions": [
        "LibcstTransformerPipeline.apply",
        "RegexTransformerPipeline.apply / SastRegexTransformerPipeline._apply",
        "XMLTransformerPipeline.apply",
        "CodemodExecutionContext.process_dependencies / add_dependencies / add_changesets",
        "DependencyManager.write, DependencyWriter.write/add, RequirementsTxtWriter.add_to_file, SetupCfgWriter.add_to_file/build_new_lines, PyprojectWriter.add_to_file, SetupPyWriter.add_to_file",
    ],
    "bounds": {
        "quick": "all combinations of: content kind (valid / invalid UTF-8 / syntax error / vanished), raises/changes/alters of 2 chained transformers, <= 1 finding on lines 1..3, regex match / SAST mode, XML target/bad document; writers: 4 manifest kinds x 3 concrete layouts x already-declared flag x 1-2 dependencies",
        "thorough": "same (the flag space is exhausted in the quick tier)",
    },
    "assumptions": [
        "file contents are concrete (3 layouts per manifest kind); tomlkit/libcst/configparser run concretely inside each path",
        "open() in the writer modules and configparser.read are redirected to an in-memory file system that records writes",
        "the CLI flag reaches context.dry_run (checked in C20's run() skeleton)",
    ],
    "stubs": ["file (FakePath / FakeFS)", "transformers", "logger", "expat parser", "TemporaryFile"],
    "outside": ["real file systems and I/O failures during the real run", "plugin pipelines not in this repository", "report equality at the CodeTF level (timing, paths)"],
    "xh": [
        Xh("dry_libcst", 150, 300),
        Xh("dry_regex", 120, 300),
        Xh("dry_xml", 120, 300),
        Xh("dry_writer_requirements", 150, 300),
        Xh("dry_writer_setupcfg", 150, 300),
        Xh("dry_writer_pyproject", 150, 300),
        Xh("dry_writer_setuppy", 150, 300),
        Xh("dry_apply_codemods_dependencies", 100, 200),
        Xh("dry_process_dependencies", 150, 300),
        Xh("planted_dry_write", 60, 120, twin=False, expect="refuted"),
    ],
}
