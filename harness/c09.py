"""C09 — a multi-codemod run equals running the same codemods one at a time (shared-context kernel).

One inductive step from an arbitrary reachable pre-state of the shared CodemodExecutionContext: processing the
results of codemod A changes only A's entries, by appending exactly A's payload; and apply_codemods drives the
codemods strictly in list order, each followed by its dependency processing, so that the per-codemod aggregates of
a batch equal those of one-at-a-time contexts.
"""
from pathlib import Path
from typing import List

from crosshair.tracers import NoTracing

import codemodder.codemodder as cmod
import codemodder.context as ctxmod
from codemodder.codetf import Change, ChangeSet, Rule, UnfixedFinding
from codemodder.context import CodemodExecutionContext
from codemodder.dependency import DefusedXML, Security
from codemodder.file_context import FileContext
from vlib.core import NoLog, fin, tier
from vlib.main import Xh

cmod.logger = NoLog()
cmod.log_section = lambda *a, **k: None
ctxmod.logger = NoLog()
ctxmod.log_list = lambda *a, **k: None
NPRE = tier(2, 3)
IDS = ["x:python/a", "x:python/b", "x:python/c"]


def _id(i: int) -> str:
    if i % 3 == 0:
        return IDS[0]
    if i % 3 == 1:
        return IDS[1]
    return IDS[2]


def _cs(tag: int) -> ChangeSet:
    with NoTracing():
        return ChangeSet(path="f%d.py" % tag, diff="d%d" % tag, changes=[Change(lineNumber=1, description="c")])


def _uf(tag: int) -> UnfixedFinding:
    with NoTracing():
        return UnfixedFinding(id="u%d" % tag, rule=Rule(id="r", name="r"), path="p", reason="why")


def _ctx():
    with NoTracing():
        return CodemodExecutionContext(Path("/d"), False, False, None, None, None, [], [], {}, 1)


def _snapshot(ctx):
    out = {}
    for cid in IDS:
        out[cid] = (
            [c.path for c in ctx.get_changesets(cid)],
            [str(p) for p in ctx.get_failures(cid)],
            [u.id for u in ctx.get_unfixed_findings(cid)],
            sorted(d.requirement.name for d in ctx.dependencies.get(cid, set())),
        )
    return out


def inductive_step(pre: List[int], a: int, n_cs: int, n_fail: int, n_unfixed: int, dep: bool) -> bool:
    """process_results(A, ...) from an arbitrary pre-state (a history of earlier contributions by any codemods):
    only A's entries change, by appending exactly the payload, in order; every other codemod's changesets, failed
    files, unfixed findings and dependencies are untouched.
    pre: len(pre) <= NPRE and 0 <= n_cs <= 2 and 0 <= n_fail <= 1 and 0 <= n_unfixed <= 1
    post: _
    """
    ctx = _ctx()
    tag = 0
    for who in pre:  # arbitrary reachable pre-state: earlier steps by arbitrary codemods
        fc = FileContext(Path("/d"), Path("/d/p%d.py" % tag))
        fc.changesets.append(_cs(tag))
        fc.failures.append(Path("/d/bad%d.py" % tag))
        fc.unfixed_findings.append(_uf(tag))
        fc.dependencies.add(Security)
        ctx.process_results(_id(who), iter([fc]))
        tag += 1
    before = _snapshot(ctx)
    A = _id(a)
    fcs = []
    exp_cs, exp_fail, exp_uf = [], [], []
    for j in range(n_cs):
        fc = FileContext(Path("/d"), Path("/d/n%d.py" % j))
        fc.changesets.append(_cs(100 + j))
        exp_cs.append("f%d.py" % (100 + j))
        fcs.append(fc)
    fc = FileContext(Path("/d"), Path("/d/last.py"))
    for j in range(n_fail):
        fc.failures.append(Path("/d/newbad%d.py" % j))
        exp_fail.append("/d/newbad%d.py" % j)
    for j in range(n_unfixed):
        fc.unfixed_findings.append(_uf(200 + j))
        exp_uf.append("u%d" % (200 + j))
    if dep:
        fc.dependencies.add(DefusedXML)
    fcs.append(fc)
    ctx.process_results(A, iter(fcs))
    after = _snapshot(ctx)
    ok = True
    for cid in IDS:
        if cid == A:
            b = before[cid]
            ok = ok and after[cid][0] == b[0] + exp_cs and after[cid][1] == b[1] + exp_fail and after[cid][2] == b[2] + exp_uf
            ok = ok and after[cid][3] == sorted(set(b[3]) | ({"defusedxml"} if dep else set()))
        else:
            ok = ok and after[cid] == before[cid]
    return fin(ok)


class _Cm:
    def __init__(self, i, log, adds_dep, n_cs, sast=False):
        from codemodder.codetf import DetectionTool

        self.id, self.log, self.adds_dep, self.n_cs = IDS[i], log, adds_dep, n_cs
        self.summary, self.description, self.references = "s", "d", []
        # a tool-driven (SAST) codemod carries a detection tool; execution order must not depend on it
        self.detection_tool, self.detection_tool_rules = (DetectionTool(name="Sonar") if sast else None), []
        self.origin = "sonar" if sast else "pixee"

    def apply(self, context):
        self.log.append(("apply", self.id))
        fc = FileContext(Path("/d"), Path("/d/x.py"))
        for j in range(self.n_cs):
            fc.changesets.append(_cs(10 * IDS.index(self.id) + j))
        if self.adds_dep:
            fc.dependencies.add(DefusedXML)
        context.process_results(self.id, iter([fc]))


def _batch(sel: List[int], deps: List[bool], ncs: List[int], sast=(False, False, False)):
    log = []
    ctx = _ctx()
    ctx.__dict__["files_to_analyze"] = [Path("/d/x.py")]
    orig = ctx.process_dependencies

    def pd(cid):
        log.append(("deps", cid))
        return orig(cid)

    ctx.process_dependencies = pd

    class RM:
        package_stores = []

    ctx.repo_manager = RM()
    cms = [_Cm(i, log, deps[i], ncs[i], sast[i]) for i in sel]
    cmod.apply_codemods(ctx, cms)
    return ctx, cms, log


def batch_equals_sequential(p: int, n: int, d0: bool, d1: bool, c0: int, c1: int, s0: bool, s1: bool) -> bool:
    """codemodder.apply_codemods over n <= 3 distinct codemods (find-and-fix or tool-driven, symbolic) in an arbitrary order: each codemod's apply is
    followed by its own dependency processing, strictly in list order; the per-codemod results compiled from the
    batch context equal those compiled from a fresh context that ran that codemod alone.
    pre: 1 <= n <= 3 and 0 <= c0 <= 1 and 0 <= c1 <= 1
    post: _
    """
    from harness.c11 import perm

    sel = perm(p)[:n]
    deps, ncs = [d0, d1, False], [c0, c1, 1]
    sast = (s0, s1, False)
    ctx, cms, log = _batch(sel, deps, ncs, sast)
    exp_log = []
    for i in sel:
        exp_log += [("apply", IDS[i]), ("deps", IDS[i])]
    ok = log == exp_log
    batch = ctx.compile_results(cms)
    ok = ok and [r.codemod for r in batch] == [IDS[i] for i in sel]
    for r, i in zip(batch, sel):
        sctx, scms, _ = _batch([i], deps, ncs, sast)
        (single,) = sctx.compile_results(scms)
        ok = ok and [c.path for c in r.changeset] == [c.path for c in single.changeset] and r.failedFiles == single.failedFiles and r.description == single.description
        ok = ok and (ctx._dependency_update_by_codemod.get(IDS[i]) == sctx._dependency_update_by_codemod.get(IDS[i]))
    return fin(ok)


def shared_manifest(same_dep: bool, declared: bool, swap: bool) -> bool:
    """Two codemods of one run sharing the run's parsed manifest end up exactly as after one-at-a-time runs with a
    re-parse in between (see _shared_manifest).
    post: _
    """
    return fin(_shared_manifest(same_dep, declared, swap))


def _shared_manifest(same_dep, declared, swap):
    """Two codemods of one run that need a package (the same one or different ones) and share the run's parsed
    manifest (real PackageStore, real DependencyManager / RequirementsTxtWriter over an in-memory file): the
    manifest ends up exactly as after running them one at a time with a re-parse in between - each needed package
    listed once - and each codemod reports the same number of manifest changesets as in its own run."""
    import codemodder.dependency_management.requirements_txt_writer as rw
    from codemodder.project_analysis.file_parsers.package_store import FileType, PackageStore
    from vlib.stubs import FakeFS

    path = "/d/requirements.txt"
    text = "requests\n" + ("defusedxml==0.7.1\n" if declared else "")
    needs = [DefusedXML, DefusedXML if same_dep else Security]
    if swap:
        needs.reverse()

    def parse(fs):
        lines = [l for l in fs.files[path].split("\n") if l]
        return PackageStore(type=FileType.REQ_TXT, file=Path(path), dependencies=set(lines), py_versions=[])

    class RM:
        def __init__(self, store):
            self.package_stores = [store]

    def run(fs, store, which):
        ctx = _ctx()
        ctx.__dict__["files_to_analyze"] = [Path("/d/x.py")]
        ctx.repo_manager = RM(store)
        log = []
        cms = []
        for i in which:
            cm = _Cm(i, log, False, 0)
            dep = needs[i]

            def apply(context, cm=cm, dep=dep):
                fc = FileContext(Path("/d"), Path("/d/x.py"))
                fc.dependencies.add(dep)
                context.process_results(cm.id, iter([fc]))

            cm.apply = apply
            cms.append(cm)
        rw.open = fs.open
        try:
            cmod.apply_codemods(ctx, cms)
        finally:
            del rw.open
        return [len(ctx.get_changesets(c.id)) for c in cms]

    fs_b = FakeFS({path: text})
    batch = run(fs_b, parse(fs_b), [0, 1])
    fs_s = FakeFS({path: text})
    seq = run(fs_s, parse(fs_s), [0]) + run(fs_s, parse(fs_s), [1])
    final = [l for l in fs_b.files[path].split("\n") if l]
    ok = fs_b.files[path] == fs_s.files[path] and batch == seq
    for dep in needs:
        ok = ok and final.count(str(dep.requirement)) == 1
    return ok


def _dry_vs_real_dependencies(declared, two):
    """One codemod needing one or two packages, through the real apply_codemods with a real RequirementsTxtWriter over
    an in-memory manifest, once with dry_run and once for real: the dry run writes nothing and records the same
    changesets (path, diff, change lines) and the same dependency-update outcome as the real run."""
    import codemodder.dependency_management.requirements_txt_writer as rw
    from codemodder.project_analysis.file_parsers.package_store import FileType, PackageStore
    from vlib.stubs import FakeFS

    path = "/d/requirements.txt"
    text = "requests\n" + ("defusedxml==0.7.1\n" if declared else "")
    needs = [DefusedXML, Security] if two else [DefusedXML]

    class RM:
        def __init__(self, store):
            self.package_stores = [store]

    def run(dry):
        fs = FakeFS({path: text})
        store = PackageStore(type=FileType.REQ_TXT, file=Path(path), dependencies=set(l for l in text.split("\n") if l), py_versions=[])
        with NoTracing():
            ctx = CodemodExecutionContext(Path("/d"), dry, False, None, None, None, [], [], {}, 1)
        ctx.__dict__["files_to_analyze"] = [Path("/d/x.py")]
        ctx.repo_manager = RM(store)
        cm = _Cm(0, [], False, 0)

        def apply(context, cm=cm):
            fc = FileContext(Path("/d"), Path("/d/x.py"))
            for dep in needs:
                fc.dependencies.add(dep)
            context.process_results(cm.id, iter([fc]))

        cm.apply = apply
        rw.open = fs.open
        try:
            cmod.apply_codemods(ctx, [cm])
        finally:
            del rw.open
        cs = [(c.path, c.diff, [(x.lineNumber, x.description) for x in c.changes]) for c in ctx.get_changesets(cm.id)]
        upd = ctx._dependency_update_by_codemod.get(cm.id)
        return fs, cs, (None if upd is None else upd.type)

    fs_d, cs_d, upd_d = run(True)
    fs_r, cs_r, upd_r = run(False)
    return fs_d.writes == [] and fs_d.files[path] == text and cs_d == cs_r and upd_d == upd_r


SETUP_PY = 'from setuptools import setup\n\nversion = "1"\nsetup(\n    name="x",\n    install_requires=[\n        "requests",\n    ],\n)\n'


def manifest_rewritten_between_codemods(a_first: bool, dry_run: bool) -> bool:
    """One run with codemod A (needs a new dependency; the real SetupPyWriter adds it to setup.py when A's
    dependencies are processed) and codemod B (a real LibcstTransformerPipeline editing setup.py itself), in either
    order: B works on what is on disk when its turn comes, so the final setup.py carries both A's dependency and B's
    edit, exactly as after one-at-a-time runs; a dry run leaves the file alone.
    post: _
    """
    import libcst as cst

    import codemodder.codemods.base_codemod as bc
    import codemodder.dependency_management.setup_py_writer as spw
    from codemodder.codemods.base_codemod import FindAndFixCodemod, Metadata, ReviewGuidance
    from codemodder.codemods.libcst_transformer import LibcstTransformerPipeline
    from codemodder.project_analysis.file_parsers.package_store import FileType, PackageStore
    from harness import c11
    from vlib.stubs import FakePath

    fp = FakePath(SETUP_PY.encode(), rel="setup.py")  # also served through builtins.open("/d/setup.py")

    class TB:
        @classmethod
        def transform(cls, tree, results, file_context):
            file_context.codemod_changes.append(Change(lineNumber=3, description="d"))
            return cst.parse_module(tree.code.replace('version = "1"', 'version = "2"'))

    class _FF(FindAndFixCodemod):
        @property
        def origin(self):
            return "verif"

        @property
        def docs_module_path(self):
            return "verif"

    md = lambda n: Metadata(name=n, summary="s", review_guidance=ReviewGuidance.MERGE_WITHOUT_REVIEW, description="d")

    class TA:
        @classmethod
        def transform(cls, tree, results, file_context):
            file_context.add_dependency(DefusedXML)
            return tree

    A = _FF(metadata=md("a"), transformer=LibcstTransformerPipeline(TA))
    B = _FF(metadata=md("b"), transformer=LibcstTransformerPipeline(TB))
    with NoTracing():
        ctx = CodemodExecutionContext(Path("/d"), dry_run, False, None, None, None, [], [], {}, 1)
    ctx.__dict__["find_and_fix_paths"] = [fp]
    ctx.__dict__["files_to_analyze"] = [fp]

    class RM:
        package_stores = [PackageStore(type=FileType.SETUP_PY, file=Path("/d/setup.py"), dependencies={"requests"}, py_versions=[])]

    ctx.repo_manager = RM()
    c11.install_executor(bc)
    c11.SchedExecutor.ORDER = [0, 1, 2]
    with NoTracing():  # concrete libcst runs (the symbolic part is the order and the dry-run flag, already decided)
        cmod.apply_codemods(ctx, [A, B] if a_first else [B, A])
    final = fp.content.decode()
    if dry_run:
        return fin(final == SETUP_PY and fp.writes == [])
    return fin('version = "2"' in final and "defusedxml==0.7.1" in final and '"requests"' in final and final.count("defusedxml") == 1)


def planted_cross_talk(a: int, b: int) -> bool:
    """Self-test: an aggregator keyed by nothing (one shared list) must be refuted by the step oracle.
    post: _
    """
    shared = []
    shared.append(("cs", _id(a)))
    return [x for x in shared if x[1] == _id(b)] == ([("cs", _id(a))] if _id(a) == _id(b) else []) and _id(a) == _id(b)


def _real_pipeline_run(files, which, a_raises_on):
    """Real apply_codemods over `files` with the codemods named in `which` ('a' rewrites `a = 1`, its transformer
    raising on file number a_raises_on; 'b' appends a line), each a real LibcstTransformerPipeline."""
    import libcst as cst

    from codemodder.codemods.base_codemod import Metadata, ReviewGuidance
    from codemodder.codemods.libcst_transformer import LibcstTransformerPipeline
    from harness import c10

    cmod.logger = NoLog()
    cmod.log_section = lambda *a, **k: None
    ctxmod.log_list = lambda *a, **k: None

    class TA:
        @classmethod
        def transform(cls, tree, results, file_context):
            if file_context.file_path.rel == "f%d.py" % a_raises_on:
                raise c10.Boom()
            file_context.codemod_changes.append(Change(lineNumber=2, description="d"))
            return cst.parse_module(tree.code.replace("a = 1", "a = 2"))

    class TB:
        @classmethod
        def transform(cls, tree, results, file_context):
            file_context.codemod_changes.append(Change(lineNumber=1, description="d"))
            return cst.parse_module(tree.code + "z = 0\n")

    md = lambda n: Metadata(name=n, summary="s", review_guidance=ReviewGuidance.MERGE_WITHOUT_REVIEW, description="d")
    mods = {"a": c10._StubCodemod(metadata=md("a"), transformer=LibcstTransformerPipeline(TA)), "b": c10._StubCodemod(metadata=md("b"), transformer=LibcstTransformerPipeline(TB))}
    ctx = c10._mk_context(False, files)
    c10._install_serial()
    cmod.apply_codemods(ctx, [mods[w] for w in which])
    out = {}
    for w in which:
        m = mods[w]
        out[w] = (
            sorted((c.path, c.diff) for c in ctx.get_changesets(m.id)),
            sorted(str(p) for p in ctx.get_failures(m.id)),
            sorted((u.id, u.path) for u in ctx.get_unfixed_findings(m.id)),
        )
    return out


def batch_equals_sequential_real_pipelines(k0: int, k1: int, a_raises_on: int, b_first: bool) -> bool:
    """Two codemods built on the REAL LibcstTransformerPipeline over 2 files whose kind is symbolic (healthy,
    undecodable, unparsable, vanished) and with an optional transformer fault: the run `A;B` (or `B;A`) through the
    real apply_codemods reports, per codemod, the same changesets (paths and diffs), failed files and unfixed findings,
    and leaves the same bytes on disk, as running the two codemods one at a time in fresh contexts over the same tree.
    pre: -1 <= a_raises_on <= 1
    post: _
    """
    from harness import c10
    from vlib.stubs import FakePath

    kinds = [c10._pick_file_kind(k0), c10._pick_file_kind(k1)]
    mk = lambda: [FakePath(c10.CONTENT[k], rel="f%d.py" % i, vanished=(k == 3)) for i, k in enumerate(kinds)]
    order = "ba" if b_first else "ab"
    batch_files = mk()
    batch = _real_pipeline_run(batch_files, order, a_raises_on)
    seq_files = mk()
    seq = {}
    for w in order:
        seq.update(_real_pipeline_run(seq_files, w, a_raises_on))
    same_bytes = all(x.content == y.content for x, y in zip(batch_files, seq_files))
    return fin(batch == seq and same_bytes)



def warmup():
    inductive_step([0, 1, 0], 1, 2, 1, 1, True)
    batch_equals_sequential(3, 3, True, False, 1, 0, False, True)
    shared_manifest(True, False, False)
    shared_manifest(False, True, True)
    manifest_rewritten_between_codemods(True, False)
    batch_equals_sequential_real_pipelines(0, 2, 0, False)
    batch_equals_sequential_real_pipelines(1, 0, -1, True)


SPEC = {
    "property": "C09",
    "level": "model_checking",
    "files": ["src/codemodder/codemodder.py", "src/codemodder/context.py", "src/codemodder/file_context.py"],
    "functions": [
        "CodemodExecutionContext.process_results / add_changesets / add_failures / add_dependencies / add_unfixed_findings / get_* / compile_results / process_dependencies / add_description",
        "codemodder.codemodder.apply_codemods / record_dependency_update",
        "BaseCodemod.apply / _process_file + LibcstTransformerPipeline.apply for two stub codemods over files of symbolic kind (batch run vs one-at-a-time runs)",
        "PackageStore.has_requirement, DependencyWriter.write / add, RequirementsTxtWriter.add_to_file (shared manifest across two codemods)",
    ],
    "bounds": {
        "quick": "pre-state: a history of <= 2 (thorough 3) earlier contributions by codemods chosen from a pool of 3; step payload: 0-2 changesets, 0-1 failed files, 0-1 unfixed findings, optional dependency; batch: every order of <= 3 distinct codemods, each with 0-1 changesets and an optional dependency",
        "thorough": "pre-state history of <= 3 contributions",
    },
    "assumptions": [
        "payload objects are opaque concrete tags (the aggregators never inspect them)",
        "one inductive step from an arbitrary reachable pre-state covers histories of any length",
    ],
    "stubs": ["codemods (objects whose apply() reports a symbolic payload through the real process_results)", "repo manager with no manifests", "logger"],
    "outside": ["the evolving file tree (a later codemod sees an earlier one's output)", "the semgrep pre-filter computed once on the original tree (needs the semgrep binary): the part of C09 most likely to fail in practice is NOT decided here", "functools.cache'd SAST loaders across codemods"],
    "xh": [
        Xh("inductive_step", 400, 1800),
        Xh("batch_equals_sequential", 500, 1200),
        Xh("shared_manifest", 200, 400),
        Xh("manifest_rewritten_between_codemods", 200, 400),
        Xh("batch_equals_sequential_real_pipelines", 300, 600),
        Xh("planted_cross_talk", 60, 120, twin=False, expect="refuted"),
    ],
}
