"""C01 — every file codemodder rewrites is still syntactically valid Python (string-assembly kernels + E2 families).

"For all programs" cannot be a symbolic source text (the parser is native).  What is decided here is the part of
C01 where the repo assembles literal tokens by string surgery without re-parsing them:
  * LazyLogging.make_args_for_plus / process_concat (E1): the literal's prefix, quote style and content are chosen
    by symbolic selectors; the emitted token must compile and denote the original text + '%s';
  * every program of the E2 families (C08) must still parse after the real pipeline (concrete by-product).
"""
import ast

import libcst as cst

from core_codemods.lazy_logging import LazyLogging
from tv import driver
from vlib.core import fin, tier
from vlib.main import Xh

CHARS = ["a", '"', "'", "\\", "\n", "%", "{", " "]
QUOTES = ["'", '"', "'''", '"""']
PREFIXES = ["", "r", "b", "u", "f"]
NCH = tier(2, 3)


def _pick(pool, i):
    k = 0
    while k < len(pool) - 1:
        if i % len(pool) == k:
            return pool[k]
        k += 1
    return pool[len(pool) - 1]


class Stub:
    is_str_concat = LazyLogging.is_str_concat
    process_concat = LazyLogging.process_concat
    _string_pieces = getattr(LazyLogging, "_string_pieces", None)
    _can_requote = staticmethod(getattr(LazyLogging, "_can_requote", lambda p: True))

    def __init__(self, bytes_mode):
        self.bytes_mode = bytes_mode

    def resolve_expression(self, node):
        # `x` is bound elsewhere in the module to a literal of the same type as the left operand
        if isinstance(node, cst.Name):
            return cst.SimpleString('b"v"' if self.bytes_mode else '"v"')
        return node


def _valid_literal(tok: str):
    """The str/bytes value of `tok` if it is exactly ONE string-literal token, else None (Python's own lexer/parser
    on a concrete token)."""
    import io
    import tokenize

    try:
        toks = [t for t in tokenize.generate_tokens(io.StringIO(tok).readline) if t.type not in (tokenize.NEWLINE, tokenize.NL, tokenize.ENDMARKER)]
        if len(toks) != 1 or toks[0].type != tokenize.STRING:
            return None
        tree = ast.parse(tok, mode="eval")
    except (SyntaxError, ValueError, tokenize.TokenError):
        return None
    if isinstance(tree.body, ast.Constant) and isinstance(tree.body.value, (str, bytes)):
        return tree.body.value
    return None


def lazy_plus_token(n: int, c0: int, c1: int, c2: int, q: int, p: int, two_literals: bool) -> bool:
    """LazyLogging.make_args_for_plus on `<literal> + x` (and `<literal> + x + <literal>`): whatever the
    literal's prefix, quote style and content (<= NCH characters over ordinary, both quote characters, backslash,
    newline, %, brace, space), the assembled format string is a valid Python literal that denotes the original
    text with '%s' in place of the variable - or the call is left alone.
    pre: 0 <= n <= NCH
    post: _
    """
    content = ""
    if n >= 1:
        content += _pick(CHARS, c0)
    if n >= 2:
        content += _pick(CHARS, c1)
    if n >= 3:
        content += _pick(CHARS, c2)
    quote, prefix = _pick(QUOTES, q), _pick(PREFIXES, p)
    if prefix == "f":
        return fin(True)  # f-strings are FormattedString nodes, not SimpleString: a different code path
    tok = prefix + quote + content + quote
    value = _valid_literal(tok)
    if value is None:
        return fin(True)  # not a literal the parser would have produced
    lit = cst.SimpleString(value=tok)
    binop = cst.BinaryOperation(left=lit, operator=cst.Add(), right=cst.Name("x"))
    if two_literals:
        binop = cst.BinaryOperation(left=binop, operator=cst.Add(), right=cst.SimpleString(value=tok))
    args = LazyLogging.make_args_for_plus(Stub(prefix == "b"), binop)
    if args is None:
        return fin(True)
    new_tok = args[0].value.value
    new_value = _valid_literal(new_tok)
    if new_value is None:
        return False
    pct = b"%s" if isinstance(value, bytes) else "%s"
    exp = value + pct + (value if two_literals else type(value)())
    return fin(new_value == exp and len(args) == 2)


def use_generator_parses(fsel: int, extra: int, trailing_comma: bool, multiline: bool) -> bool:
    """UseGenerator.leave_Call over a symbolic call shape (builtin, trailing comma after the comprehension, one-line
    or multi-line layout, optional second argument): the rewritten call is valid Python.
    pre: 0 <= extra <= 3
    post: _
    """
    from harness import ugen

    call = ugen.build_call(fsel, extra, trailing_comma, multiline)
    try:
        ast.parse(ugen.code(call), mode="eval")
    except SyntaxError:
        return fin(True)
    new, _ = ugen.rewrite(call)
    try:
        ast.parse(ugen.code(new), mode="eval")
    except SyntaxError:
        return False
    return fin(True)


def e2_programs_parse(tier_name):
    return driver.parse_only(tier_name)


def _stmt(base: int, k: int, entry: int, ctx: int, above: int, trail: int, eol: int, tabs: int) -> bool:
    from harness import stmtfam

    return stmtfam.check(base + entry % k, ctx, above, trail, eol, tabs) is None


def stmt_removal_debug(entry: int, ctx: int, above: int, trail: int, eol: int, tabs: int) -> bool:
    """Statement family, remove-debug-breakpoint (breakpoint() / pdb.set_trace()) and unused-imports: the trigger
    statement in 8 block contexts (module level, sole statement of an if / def / else / for body, end of a try body,
    between statements, after `x = 1; `) x {nothing, comment, blank line, both} above it x trailing comment x LF / CRLF
    x spaces / tabs, through the complete real pipeline: the original compiles => the output compiles.
    post: _
    """
    return fin(_stmt(0, 3, entry, ctx, above, trail, eol, tabs))


def stmt_removal_flow(entry: int, ctx: int, above: int, trail: int, eol: int, tabs: int) -> bool:
    """Same family: remove-module-global, break-or-continue-out-of-loop (break, continue; the input only parses, so
    the output must parse), exception-without-raise.
    post: _
    """
    return fin(_stmt(3, 4, entry, ctx, above, trail, eol, tabs))


def stmt_removal_assert(entry: int, ctx: int, above: int, trail: int, eol: int, tabs: int) -> bool:
    """Same family: fix-assert-tuple, remove-assertion-in-pytest-raises, remove-future-imports.
    post: _
    """
    return fin(_stmt(7, 3, entry, ctx, above, trail, eol, tabs))


def stmt_removal_layouts(entry: int, ctx: int, above: int, trail: int, eol: int, tabs: int) -> bool:
    """Same family: remove-future-imports with the removed name first / last in a two-name import, fix-assert-tuple on
    a tuple whose elements span several lines, fix-empty-sequence-comparison on a parenthesised comparison inside an
    arithmetic expression, use-walrus-if with an unparenthesised tuple / a yield on the right-hand side.
    post: _
    """
    return fin(_stmt(10, 7, entry, ctx, above, trail, eol, tabs))


def _sast_compiles(names, which: int, style: int, args: int, decoy: int, layout: int) -> bool:
    from harness import hardsast

    return hardsast.check_kind(_pick(names, which), style, args, decoy, layout, "compile") is None


from harness.hardsast import SAST_A, SAST_B, SAST_C, SAST_D  # noqa: E402


def sast_family_compiles_a(which: int, style: int, args: int, decoy: int, layout: int) -> bool:
    """Detector-driven hardening family (harness/hardsast.py; one result placed on the call; import style x argument
    list x surroundings x layout incl. one-argument-per-line and function bodies): the rewritten module compiles.
    Codemods: add-requests-timeouts, django-json-response-type, enable-jinja2-autoescape, harden-pyyaml, harden-ruamel.
    post: _
    """
    return fin(_sast_compiles(SAST_A, which, style, args, decoy, layout))


def sast_family_compiles_b(which: int, style: int, args: int, decoy: int, layout: int) -> bool:
    """Same: jwt-decode-verify, limit-readline, requests-verify, safe-lxml-parser-defaults, safe-lxml-parsing.
    post: _
    """
    return fin(_sast_compiles(SAST_B, which, style, args, decoy, layout))


def sast_family_compiles_c(which: int, style: int, args: int, decoy: int, layout: int) -> bool:
    """Same: sandbox-process-creation, secure-flask-cookie, secure-random.
    post: _
    """
    return fin(_sast_compiles(SAST_C, which, style, args, decoy, layout))


def sast_family_compiles_d(which: int, style: int, args: int, decoy: int, layout: int) -> bool:
    """Same: upgrade-sslcontext-tls, url-sandbox, fix-deprecated-logging-warn.
    post: _
    """
    return fin(_sast_compiles(SAST_D, which, style, args, decoy, layout))


def planted_token(n: int) -> bool:
    """Self-test: gluing a single-quoted content into double quotes must be refuted by the token oracle.
    pre: 0 <= n <= 1
    post: _
    """
    content = 'a"b' if n == 1 else "ab"
    return _valid_literal('"' + content + '%s"') is not None


def warmup():
    lazy_plus_token(2, 0, 5, 0, 0, 0, False)
    lazy_plus_token(1, 0, 0, 0, 1, 2, True)
    lazy_plus_token(2, 0, 1, 0, 2, 1, False)
    from harness import hardsast, stmtfam

    for _e in range(len(stmtfam.TABLE)):
        stmtfam.check(_e, 1, 1, 1, 1, 1)
    for _n in hardsast.ORDER:
        hardsast.check(_n, 1, 1, 1, 1)


SPEC = {
    "property": "C01",
    "level": "model_checking",
    "files": ["src/core_codemods/lazy_logging.py", "src/core_codemods/invert_boolean_check.py", "src/core_codemods/combine_calls_base.py"],
    "functions": [
        "LazyLogging.make_args_for_plus / process_concat / is_str_concat",
        "UseGenerator.leave_Call",
        "the real pipelines of the three E2 codemods (output must parse)",
        "statement family: the complete real pipelines of remove-debug-breakpoint, unused-imports, remove-module-global, break-or-continue-out-of-loop, exception-without-raise, fix-assert-tuple, remove-assertion-in-pytest-raises, remove-future-imports, fix-empty-sequence-comparison (removal sentinels, flattening, libcst's `pass` fallback) over block contexts x comments x CRLF x tabs",
        "detector-driven hardening family: the complete real transformer chains of 16 semgrep-detected codemods with one result placed on the call (output must compile)",
    ],
    "bounds": {
        "quick": "literal content <= 2 characters over {a, double quote, single quote, backslash, newline, %, {, space}; 4 quote styles x 5 prefixes; one or two literal pieces; E2 quick grammar; statement family: 17 triggers x <= 8 block contexts x 4 leading-trivia shapes x trailing comment x LF/CRLF x spaces/tabs; detector-driven family: 16 codemods x 4 import styles x 3-4 argument lists x 3 surroundings x 3 layouts",
        "thorough": "content <= 3 characters; E2 thorough grammar",
    },
    "assumptions": [
        "the content alphabet stands for the lexer's character classes (ordinary, the two quote characters, backslash, newline, %, brace)",
        "x is bound to a literal of the same type (str/bytes) as the left operand",
        "literal tokens are built from symbolic selectors and are concrete on each path (the validity oracle is Python's own parser)",
    ],
    "stubs": ["self of LazyLogging (resolve_expression answers with a literal)", "FileContext with a non-existent path (E2 by-product)"],
    "outside": ["codemods outside the families listed under functions; codemod sequences K1;K2 in one run; contexts deeper than one block", "sql-parameterization's literal surgery (needs scope metadata)", "code paths that re-parse an assembled string with cst.parse_expression (they fail closed: C10)"],
    "drivers": [e2_programs_parse],
    "xh": [
        Xh("lazy_plus_token", 400, 1500),
        Xh("use_generator_parses", 150, 300),
        Xh("stmt_removal_debug", 400, 800),
        Xh("stmt_removal_flow", 400, 800),
        Xh("stmt_removal_assert", 400, 800),
        Xh("stmt_removal_layouts", 400, 800),
        Xh("sast_family_compiles_a", 400, 800),
        Xh("sast_family_compiles_b", 400, 800),
        Xh("sast_family_compiles_c", 400, 800),
        Xh("sast_family_compiles_d", 400, 800),
        Xh("planted_token", 60, 120, twin=False, expect="refuted"),
    ],
}
