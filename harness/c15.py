"""C15 — the CodeTF report is well-formed, complete and internally consistent (structural invariants at the builders).

E1 over compile_results / CodeTF.build / update_finding_metadata, the ChangeSet-producing tails of the three
pipelines and the manifest writers' change line numbers.
"""
from pathlib import Path
from typing import List

from crosshair.tracers import NoTracing

import codemodder.context as ctxmod
from codemodder.codemods.base_codemod import ToolRule
from codemodder.codetf import Change, ChangeSet, CodeTF, DetectionTool, Finding, Reference, Rule, UnfixedFinding
from codemodder.context import CodemodExecutionContext
from codemodder.utils.update_finding_metadata import update_finding_metadata
from harness import c09, skel
from harness.c11 import perm
from harness.c04 import _run_writer
from vlib.core import NoLog, fin, known_active
from vlib.main import Xh

ctxmod.logger = NoLog()


class _Cm:
    def __init__(self, i, sast):
        self.id = "origin:python/cm%d" % i
        self.summary = "summary %d" % i
        self.description = "description %d" % i
        self.references = [Reference(url="https://e/%d" % i)]
        self.detection_tool = DetectionTool(name="Sonar") if sast else None
        self.detection_tool_rules = [ToolRule(id="rule%d" % i, name="Rule %d" % i, url="https://r/%d" % i)] if sast else []


def _cs(i, j, dep_change=False):
    if dep_change and j == 0:
        # a dependency-manifest changeset: its change carries no findings
        return ChangeSet(path="f%d_%d.py" % (i, j), diff="--- \n+++ \n@@ -1 +1,2 @@\n a\n+pkg==1\n", changes=[Change(lineNumber=2, description="added pkg", findings=None)])
    return ChangeSet(path="f%d_%d.py" % (i, j), diff="--- \n+++ \n@@ -1 +1 @@\n-a\n+b\n", changes=[Change(lineNumber=1, description="d", findings=[Finding(id="rule%d" % i, rule=Rule(id="rule%d" % i, name="x", url=None)), Finding(id="other", rule=Rule(id="other", name="keep", url="u"))])])


def compile_results_shape(run0: bool, run1: bool, run2: bool, nc0: int, nc1: int, nf0: int, sast: bool, dep_change: bool) -> bool:
    """context.compile_results + CodeTF.build: exactly one result per executed codemod, in execution order, each
    with its own id / summary / description / references and only its own changesets, failed files and unfixed
    findings (entries recorded for codemods that were not passed in do not leak); SAST results carry the
    detection tool, and findings are back-filled with the tool rule's name/url only when the ids match.
    pre: 0 <= nc0 <= 2 and 0 <= nc1 <= 2 and 0 <= nf0 <= 2
    post: _
    """
    n, nc, nf = 3, [nc0, nc1, 1], [nf0, 1, 0]
    with NoTracing():
        ctx = CodemodExecutionContext(Path("/d"), False, False, None, None, None, [], [], {}, 1)
    all_cms = [_Cm(i, sast) for i in range(3)]
    for i in range(3):
        ctx.add_changesets(all_cms[i].id, [_cs(i, j, dep_change) for j in range(nc[i])])
        ctx.add_failures(all_cms[i].id, [Path("/d/bad%d_%d.py" % (i, j)) for j in range(nf[i])])
        ctx.add_unfixed_findings(all_cms[i].id, [UnfixedFinding(id="u%d" % i, rule=Rule(id="r", name="r"), path="p", reason="why") for _ in range(nf[i])])
    executed = [c for c, r in zip(all_cms[:n], (run0, run1, run2)) if r]
    results = ctx.compile_results(executed)
    report = CodeTF.build(ctx, 1, ["a"], results)
    ok = [r.codemod for r in report.results] == [c.id for c in executed]
    for r, c in zip(report.results, executed):
        i = all_cms.index(c)
        ok = ok and r.summary == c.summary and r.description == c.description and [x.url for x in r.references] == ["https://e/%d" % i]
        ok = ok and [cs.path for cs in r.changeset] == ["f%d_%d.py" % (i, j) for j in range(nc[i])]
        ok = ok and r.failedFiles == ["/d/bad%d_%d.py" % (i, j) for j in range(nf[i])]
        ok = ok and [u.id for u in r.unfixedFindings] == ["u%d" % i] * nf[i]
        ok = ok and ((r.detectionTool is not None and r.detectionTool.name == "Sonar") if sast else r.detectionTool is None)
        for j, cs in enumerate(r.changeset):
            # every changeset keeps its changes (at least one, with a description and a line number)
            ok = ok and len(cs.changes) == 1 and bool(cs.changes[0].description) and cs.changes[0].lineNumber >= 1 and cs.diff != ""
            if dep_change and j == 0:
                ok = ok and cs.changes[0].description == "added pkg"
                continue
            f_own, f_other = cs.changes[0].findings
            ok = ok and f_other.rule.name == "keep" and f_other.rule.url == "u"
            if sast:
                ok = ok and f_own.rule.name == "Rule %d" % i and f_own.rule.url == "https://r/%d" % i
            else:
                ok = ok and f_own.rule.name == "x"
    return fin(ok)


def _cs_invariants(o, n_lines_after) -> bool:
    """A returned ChangeSet: project-relative path, non-empty diff, >= 1 change with non-empty description and a
    line number inside the written file; the file is not also reported failed."""
    if o.cs is None:
        return True
    path, diff, changes = o.cs
    ok = path != "" and not path.startswith("/") and diff != "" and len(changes) >= 1 and o.failures == []
    for line, desc, _ids in changes:
        ok = ok and desc is not None and desc != "" and 1 <= line <= n_lines_after
    return ok


def changeset_libcst(kind: int, dry_run: bool, r1: bool, c1: bool, a1: bool, r2: bool, c2: bool, a2: bool) -> bool:
    """LibcstTransformerPipeline.apply: ChangeSet invariants; failed and changed are mutually exclusive.
    pre: 0 <= kind < 5
    post: _
    """
    fp, fc, o = skel.run_libcst(kind, dry_run, (r1, c1, a1), (r2, c2, a2), 1)
    n_after = len((fp.content if not dry_run else skel.NEW2_TEXT.encode()).split(b"\n")) + 1
    return fin(o.exc is None and _cs_invariants(o, n_after) and not (o.failures and fp.writes))


def changeset_libcst_unwritable(dry_run: bool, c1: bool, a1: bool, c2: bool, a2: bool) -> bool:
    """LibcstTransformerPipeline.apply on a file that can be read but not written (read-only bits, immutable flag):
    either the failure escapes (the run aborts: no report, vacuous) or what is reported is consistent - a ChangeSet
    only for a file that was really written, and never for a file that is also listed as failed.
    post: _
    """
    from vlib.stubs import FakePath

    fp = FakePath(skel.SRC_TEXT.encode(), unwritable=True)
    fp, fc, o = skel.run_libcst(0, dry_run, (False, c1, a1), (False, c2, a2), 1, fp=fp)
    if o.exc is not None:
        return fin(True)
    reported_change = o.cs is not None
    ok = not (reported_change and o.failures)
    if not dry_run:
        ok = ok and (not reported_change or bool(fp.writes))
    return fin(ok)


def changeset_regex_xml(which: int, dry_run: bool, hit: bool, sast: bool, nf: int, line: int) -> bool:
    """Regex / SastRegex / XML pipelines: ChangeSet invariants.
    pre: 0 <= which <= 1 and 0 <= nf <= 1 and 1 <= line <= 3
    post: _
    """
    if which == 0:
        fp, fc, o = skel.run_regex(0, dry_run, hit, sast, nf, line)
    else:
        fp, fc, o = skel.run_xml(False, False, dry_run, hit, nf, line, not sast)
    return fin(o.exc is None and _cs_invariants(o, 5))


def writer_change_lines(kind: int, variant: int, two: bool) -> bool:
    """Manifest writers: every change entry has a non-empty description and a line number inside the manifest as
    written, and names a line on which the new requirement appears (requirements.txt, setup.cfg, pyproject.toml).
    For setup.py the line reported is the one before the last install_requires element (pinned by the existing
    tests); it must at least lie inside the file.
    pre: 0 <= kind < 4 and 0 <= variant < 2
    post: _
    """
    fs, obs, exc, text, path = _run_writer(kind, variant, False, two, False)
    if exc is not None or obs is None:
        return False
    after = fs.files[path].split("\n")
    if after and after[-1] == "":
        after.pop()
    ok = obs[1] != "" and not obs[0].startswith("/")
    names = ["defusedxml", "security"] if two else ["defusedxml"]
    for (line, desc), name in zip(obs[2], names):
        ok = ok and desc != "" and 1 <= line <= len(after)
        if kind != 3 and 1 <= line <= len(after):
            if kind == 2:
                # pyproject: the reported lines are the added lines (their order among two additions is a known finding)
                ok = ok and any(n in after[line - 1] for n in names)
            else:
                ok = ok and name in after[line - 1]
    return fin(ok)


def report_in_execution_order(p: int, n: int, s0: bool, s1: bool, s2: bool) -> bool:
    """codemodder.apply_codemods + compile_results over every order of n <= 3 codemods, each find-and-fix or
    tool-driven (symbolic): the report lists one result per executed codemod in the order in which they were
    actually executed.
    pre: 1 <= n <= 3
    post: _
    """
    sel = perm(p)[:n]
    ctx, cms, log = c09._batch(sel, [False, False, False], [1, 1, 1], (s0, s1, s2))
    executed = [cid for kind, cid in log if kind == "apply"]
    report = [r.codemod for r in ctx.compile_results(cms)]
    return fin(report == executed and executed == [c09.IDS[i] for i in sel])


def planted_foreign_leak(nc0: int) -> bool:
    """Self-test: a compile_results that returns every codemod's changesets for each codemod must be refuted.
    pre: 0 <= nc0 <= 2
    post: _
    """
    own = ["f0_%d.py" % j for j in range(nc0)]
    leaked = own + ["f1_0.py"]
    return leaked == own


def warmup():
    skel.warm()
    compile_results_shape(True, False, True, 1, 2, 2, True, True)
    compile_results_shape(True, True, True, 1, 0, 0, False, False)
    changeset_libcst(0, False, False, True, True, False, True, True)
    changeset_libcst_unwritable(False, True, True, False, False)
    changeset_regex_xml(0, False, True, True, 1, 2)
    changeset_regex_xml(1, True, True, False, 1, 2)
    for k in range(4):
        for v in range(2):
            writer_change_lines(k, v, True)
    report_in_execution_order(3, 3, True, False, True)


SPEC = {
    "property": "C15",
    "level": "model_checking",
    "files": [
        "src/codemodder/codetf.py",
        "src/codemodder/context.py",
        "src/codemodder/utils/update_finding_metadata.py",
        "src/codemodder/file_context.py",
        "src/codemodder/dependency_management/base_dependency_writer.py",
    ],
    "functions": [
        "CodemodExecutionContext.compile_results / add_changesets / add_failures / add_unfixed_findings / get_* / add_description",
        "CodeTF.build, codetf.Result / ChangeSet / Change validators",
        "update_finding_metadata",
        "the ChangeSet-producing tails of LibcstTransformerPipeline / RegexTransformerPipeline / SastRegexTransformerPipeline / XMLTransformerPipeline .apply",
        "DependencyWriter.build_changes with the requirements.txt / setup.cfg / pyproject / setup.py line-number strategies",
    ],
    "bounds": {
        "quick": "3 codemods, each executed or not, 0-2 changesets for two of them and 0-2 failed files / unfixed findings for one (the rest fixed), SAST or not; pipeline outcome flags as in C03/C04/C10; manifest writers: 4 kinds x 2 concrete layouts x 1-2 dependencies",
        "thorough": "same",
    },
    "assumptions": [
        "pydantic's own validation and JSON serialisation are trusted (pydantic-core is native); schema validation of the serialised file is outside",
        "strings are ASCII",
    ],
    "stubs": ["codemods (objects with id / summary / description / references / detection tool)", "file system", "transformers", "logger"],
    "outside": ["JSON schema validation of the serialised report", "non-ASCII content", "'changeset names an existing file' on a real file system"],
    "xh": [
        Xh("compile_results_shape", 300, 600),
        Xh("changeset_libcst", 150, 300),
        Xh("changeset_libcst_unwritable", 100, 200),
        Xh("changeset_regex_xml", 150, 300),
        Xh("writer_change_lines", 150, 300),
        Xh("report_in_execution_order", 200, 400),
        Xh("planted_foreign_leak", 60, 120, twin=False, expect="refuted"),
    ],
}
