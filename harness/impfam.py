"""Import-block family for C02 (and C08): selector-built modules pushed through the complete real pipelines of the
import codemods (order-imports, unused-imports, remove-future-imports); oracle = exec of both modules."""
from crosshair.tracers import NoTracing

IMPORTS = [
    ("import os", ["os"]),
    ("import os.path", ["os"]),
    ("from os import path", ["path"]),
    ("from os import path as p", ["p"]),
    ("from os.path import join", ["join"]),
    ("from os.path import join as pj", ["pj"]),
    ("import os as o", ["o"]),
    ("from os.path import join, join as pj", ["join", "pj"]),
    ("from os.path import (\n    join,\n    sep,\n)", ["join", "sep"]),
    ("import sys, os", ["sys", "os"]),
]
_REG = None


def registry():
    global _REG
    if _REG is None:
        from codemodder.registry import load_registered_codemods

        _REG = {c.id: c for c in load_registered_codemods().codemods}
    return _REG


def pick(i: int):
    k = 0
    while k < len(IMPORTS) - 1:
        if i % len(IMPORTS) == k:
            return IMPORTS[k]
        k += 1
    return IMPORTS[len(IMPORTS) - 1]


def build(i0: int, i1: int, use_mask: int, future: bool, in_function: bool):
    (s0, n0), (s1, n1) = pick(i0), pick(i1)
    names = []
    for n in n0 + n1:
        if n not in names:
            names.append(n)
    used = [n for k, n in enumerate(names) if (use_mask >> k) & 1]
    head = ("from __future__ import annotations\n" if future else "") + s0 + "\n" + s1 + "\n"
    uses = "r = [%s]\n" % ", ".join("repr(%s)[:20]" % n for n in used)
    if in_function:
        body = "def f():\n    return [%s]\nr = f()\n" % ", ".join("repr(%s)[:20]" % n for n in used)
    else:
        body = uses
    return head + body


def observe(code: str):
    ns = {}
    try:
        exec(compile(code, "<m>", "exec"), ns)
    except SyntaxError:
        return ("syntax-error",)
    except Exception as e:  # noqa
        return ("exc", type(e).__name__, str(e)[:60])
    return ("val", ns.get("r"))


def run(codemod: str, src: str):
    from tv import driver

    with NoTracing():
        out, _ = driver.run_pipeline(registry()["pixee:python/" + codemod], src)
        return observe(src), observe(out), out
