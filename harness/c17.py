"""C17 — exactly the requested codemods run, once each, in the requested order.

E3: the real `CodemodRegistry.match_codemods` is executed with `re.compile` (in registry's namespace) replaced by a
stub whose match methods answer from a *decision vector* and which records (pattern string, method used).
 (a) primitive lemma, z3: for every wildcard entry w, the language accepted by the pattern string the real code
     built, under the method it called, equals the reference glob language of w (whole id, `*` the only special
     character) for ALL ids in the id domain (unbounded strings, stated bound |id| <= 64);
 (b) structure, decision vectors + z3 feasibility: for every decision vector the real outcome equals the reference
     selection computed from the same vector; a differing vector is a violation iff z3 finds ids realising it.
Every sat answer is replayed with the real `re` on a registry carrying the model's ids.
"""
import itertools
import os
import time
import types

import z3

import codemodder.registry as reg
import symre
from codemodder.registry import DEFAULT_EXCLUDED_CODEMODS, CodemodCollection, CodemodRegistry
from vlib.core import NoLog, ROOT, tier

reg.logger = NoLog()
REAL_RE = reg.re
S = z3.StringVal

# id domain: printable, non-space ASCII without ',' and '*'  (what a registry id can look like on a command line)
IDCHAR = z3.Diff(z3.Range("!", "~"), z3.Union(z3.Re(","), z3.Re("*")))
IDLANG = z3.Plus(IDCHAR)


class CM:
    default_extensions = [".py"]

    def __init__(self, ident, origin):
        self.id, self.origin = ident, origin

    def __repr__(self):
        return self.id


def registry(ids, origins):
    r = CodemodRegistry()
    r.add_codemod_collection(CodemodCollection(origin="x", codemods=[CM(i, o) for i, o in zip(ids, origins)]))
    return r


class Oracle:
    vec = {}
    compiled = []  # [pattern string]
    methods = {}  # pattern string -> set of methods used


class StubPat:
    def __init__(self, s):
        self.s = s

    def _ans(self, method, ident):
        Oracle.methods.setdefault(self.s, set()).add(method)
        return object() if Oracle.vec.get((self.s, ident), False) else None

    def match(self, ident):
        return self._ans("match", ident)

    def fullmatch(self, ident):
        return self._ans("fullmatch", ident)

    def search(self, ident):
        return self._ans("search", ident)


def stub_compile(s, flags=0):
    if s not in Oracle.compiled:
        Oracle.compiled.append(s)
    Oracle.flags = getattr(Oracle, "flagmap", {})
    Oracle.flagmap = dict(Oracle.flags, **{s: int(flags)})
    return StubPat(s)


class _StubRe:
    compile = staticmethod(stub_compile)
    escape = staticmethod(REAL_RE.escape)
    DOTALL = REAL_RE.DOTALL
    IGNORECASE = REAL_RE.IGNORECASE

    def __getattr__(self, k):
        return getattr(REAL_RE, k)


SENT = ["\x00ID0", "\x00ID1", "\x00ID2"]
UNKNOWN = "\x00UNKNOWN"
WILDCARDS = ["pixee:*", "*sql*", "*-imports", "a.b*", "**", "pi*sql", "*", "pi*sq*"]


def ref_select_include(include, ids, origins, wmatch):
    """Reference for --codemod-include: listed ids and wildcard matches (registry order within a wildcard), in the
    order given, each at most once; unknown ids ignored.  wmatch(w, id) -> bool is the glob truth."""
    out = []
    for name in include:
        if "*" in name:
            out += [i for i in ids if wmatch(name, i)]
        elif name in ids:
            out.append(name)
    return list(dict.fromkeys(out))


def ref_select_exclude(exclude, ids, origins, sast_only, wmatch):
    exclude = exclude or DEFAULT_EXCLUDED_CODEMODS
    out = []
    for i, o in zip(ids, origins):
        if any(("*" in e and wmatch(e, i)) or ("*" not in e and e == i) for e in exclude):
            continue
        if bool(sast_only) != (o == "pixee"):
            out.append(i)
    return out


def _run_real(r, include, exclude, sast_only):
    return [c.id for c in r.match_codemods(include or None, exclude or None, sast_only=sast_only)]


def _concrete_replay(ids, origins, include, exclude, sast_only):
    """Run the real code with the real `re` on concrete ids and compare with the reference (glob truth computed by a
    tiny concrete star-only matcher)."""
    def wmatch(w, s):
        import re as _re

        return _re.fullmatch(".*".join(_re.escape(p) for p in w.split("*")), s, _re.DOTALL) is not None

    saved = reg.re
    reg.re = REAL_RE
    try:
        got = _run_real(registry(ids, origins), include, exclude, sast_only)
    finally:
        reg.re = saved
    if include:
        exp = ref_select_include(include, ids, origins, wmatch)
    else:
        exp = ref_select_exclude(exclude, ids, origins, sast_only, wmatch)
    return got, exp


def _write_replay(name, ids, origins, include, exclude, sast_only):
    d = os.path.join(ROOT, "replays", "C17")
    os.makedirs(d, exist_ok=True)
    path = os.path.join(d, name + ".py")
    with open(path, "w") as f:
        f.write(
            "import sys\nsys.path.insert(0, %r)\nfrom harness.c17 import _concrete_replay\n"
            "got, exp = _concrete_replay(%r, %r, %r, %r, %r)\nprint('real:', got)\nprint('reference:', exp)\nsys.exit(1 if got != exp else 0)\n"
            % (ROOT, ids, origins, include, exclude, sast_only)
        )
    return path


def _subst(entries, ids):
    return [ids[SENT.index(e)] if e in SENT else ("no-such-codemod" if e == UNKNOWN else e) for e in entries]


def _witness_lemma(mode, w):
    """Witness-based fallback for one wildcard (see primitive_lemmas)."""
    import re as _re

    glob = symre.glob_star_only(w)
    prefix = w.split("*")[0]
    mistaken = []
    if prefix:
        mistaken.append(z3.Concat(z3.Re(S(prefix)), z3.Star(IDCHAR)))  # prefix only
    try:
        mistaken.append(symre.method_lang(w.replace("*", ".*"), "match", 0))  # unescaped, unanchored at the end
        mistaken.append(symre.method_lang(w.replace("*", ".*"), "search", 0))
    except Exception:  # noqa
        pass
    queries = [("inside the glob", z3.InRe, None), ("outside the glob", None, None)]
    ident = z3.String("id")
    wit, nq = [], 0
    cases = [z3.InRe(ident, glob), z3.Not(z3.InRe(ident, glob))]
    cases += [z3.And(z3.InRe(ident, m), z3.Not(z3.InRe(ident, glob))) for m in mistaken]
    cases += [z3.And(z3.Not(z3.InRe(ident, m)), z3.InRe(ident, glob)) for m in mistaken]
    for c in cases:
        sv = z3.Solver()
        sv.set("timeout", 20000)
        sv.add(z3.InRe(ident, IDLANG), z3.Length(ident) <= 24, c)
        nq += 1
        if str(sv.check()) == "sat":
            wit.append(sv.model()[ident].as_string())
    inc, exc = ([w], None) if mode == "include" else (None, [w])
    for wid in dict.fromkeys(wit):
        got, exp = _concrete_replay([wid], ["pixee"], inc, exc, False)
        if got != exp:
            return dict(verdict="violation", z3_checks=nq, replay=_write_replay("lemma_%s_%d" % (mode, WILDCARDS.index(w)), [wid], ["pixee"], inc, exc, False),
                        detail="wildcard %r (%s mode, no regex captured): id %r -> real %r, reference %r" % (w, mode, wid, got, exp))
    return dict(verdict="inconclusive", z3_checks=nq, evaluations=len(wit),
                detail="the code matched %r without re.compile: language not captured; %d solver-generated witness ids agree with the reference" % (w, len(set(wit))))


def primitive_lemmas(tier_name):
    """(a) for each wildcard: L(real pattern, real method) == L(reference glob) on the id domain."""
    recs = []
    reg.re = _StubRe()
    for mode in ("include", "exclude"):
        for w in WILDCARDS:
            Oracle.compiled, Oracle.methods, Oracle.vec, Oracle.flagmap = [], {}, {}, {}
            r = registry(SENT[:1], ["pixee"])
            if mode == "include":
                r.match_codemods([w], None)
            else:
                r.match_codemods(None, [w])
            t0 = time.time()
            rec = {"name": "lemma:%s:%s" % (mode, w), "engine": "E3-z3-regex", "evaluations": 1, "distinct_nontrivial": 1, "z3_checks": 0, "z3_time_s": 0.0}
            if len(Oracle.compiled) != 1:
                # The code did not go through re.compile for this wildcard (e.g. a str.startswith fast path): the
                # language cannot be captured.  Fall back to solver-generated WITNESSES: ids inside / outside the
                # reference glob and inside the usual mistaken readings (prefix only, unescaped metacharacters,
                # unanchored search) but outside the glob, each run concretely against the real code.
                rec.update(_witness_lemma(mode, w))
                recs.append(rec)
                continue
            pat = Oracle.compiled[0]
            methods = sorted(Oracle.methods.get(pat, []))
            flags = Oracle.flagmap.get(pat, 0)
            try:
                langs = [symre.method_lang(pat, m, flags) for m in methods]
                samples = ["", "a", "ab", "a.b", "axb", "a.bc", "pixee:x", "pixee:sql", "xpixee:", "x-imports", "-imports", "sql", "xsqly", "pisql", "pi-sql", "pixsqlx"]
                bad = [s for m in methods for s in symre.validate(pat, m, samples, flags)]
            except NotImplementedError as e:
                rec.update(verdict="inconclusive", detail="untranslatable regex %r: %s" % (pat, e))
                recs.append(rec)
                continue
            if bad:
                rec.update(verdict="harness_error", detail="symre disagrees with re on %r for %r" % (bad, pat))
                recs.append(rec)
                continue
            ident = z3.String("id")
            s = z3.Solver()
            s.set("timeout", 60000)
            s.add(z3.InRe(ident, IDLANG), z3.Length(ident) <= 64)
            real = z3.Or(*[z3.InRe(ident, l) for l in langs]) if langs else z3.BoolVal(False)
            s.add(real != z3.InRe(ident, symre.glob_star_only(w)))
            res = str(s.check())
            rec["z3_checks"] = 1
            rec["z3_time_s"] = round(time.time() - t0, 3)
            rec["sample"] = {"wildcard": w, "compiled": pat, "methods": methods, "z3": res}
            if res == "unsat":
                rec["verdict"] = "discharged"
            elif res == "sat":
                wid = s.model()[ident].as_string()
                inc, exc = ([w], None) if mode == "include" else (None, [w])
                got, exp = _concrete_replay([wid], ["pixee"], inc, exc, False)
                if got != exp:
                    rec.update(verdict="violation", replay=_write_replay("lemma_%s_%d" % (mode, WILDCARDS.index(w)), [wid], ["pixee"], inc, exc, False),
                               detail="wildcard %r compiled to %r/%s: id %r -> real %r, reference %r" % (w, pat, methods, wid, got, exp))
                else:
                    rec.update(verdict="harness_error", detail="model id %r does not reproduce for %r" % (wid, w))
            else:
                rec.update(verdict="inconclusive", detail="z3 answered " + res)
            recs.append(rec)
    reg.re = REAL_RE
    return recs


def _feasible(vec_keys, bits, wild_of, n):
    """z3: are there n distinct ids in the id domain on which the reference glob truth equals `bits`?"""
    ids = [z3.String("id%d" % i) for i in range(n)]
    s = z3.Solver()
    s.set("timeout", 30000)
    for v in ids:
        s.add(z3.InRe(v, IDLANG), z3.Length(v) <= 64, v != S("no-such-codemod"))
    s.add(z3.Distinct(*ids) if n > 1 else z3.BoolVal(True))
    for (pat, sid), b in zip(vec_keys, bits):
        s.add(z3.InRe(ids[SENT.index(sid)], symre.glob_star_only(wild_of[pat])) == b)
    r = str(s.check())
    return r, ([s.model()[v].as_string() for v in ids] if r == "sat" else None)


def structure(tier_name):
    """(b) decision-vector exploration of the real selection logic against the reference."""
    n = 2 if tier_name == "quick" else 3
    maxlen = 2 if tier_name == "quick" else 3
    entries = SENT[:n] + [UNKNOWN] + (WILDCARDS[:3] if tier_name == "quick" else WILDCARDS)
    reg.re = _StubRe()
    t0 = time.time()
    n_cfg = n_vec = n_diff = n_q = 0
    zt = 0.0
    violations, samples = [], []
    uncaptured = 0
    configs = []
    for k in range(1, maxlen + 1):
        for lst in itertools.product(entries, repeat=k):
            if sum(1 for e in lst if "*" in e) > (2 if tier_name == "quick" else 3) or len(set(lst)) != len(lst):
                continue  # the CLI's CsvListAction removes repeated identical entries
            configs.append(("include", list(lst), False, None))
    for k in range(0, maxlen + 1):
        for lst in itertools.product(entries, repeat=k):
            if sum(1 for e in lst if "*" in e) > (2 if tier_name == "quick" else 3) or len(set(lst)) != len(lst):
                continue
            for sast in (False, True):
                for origins in itertools.product(["pixee", "sonar"], repeat=n):
                    configs.append(("exclude", list(lst), sast, list(origins)))
    for mode, lst, sast, origins in configs:
        origins = origins or ["pixee"] * n
        n_cfg += 1
        Oracle.compiled, Oracle.methods, Oracle.vec, Oracle.flagmap = [], {}, {}, {}
        r = registry(SENT[:n], origins)
        inc, exc = (lst, None) if mode == "include" else (None, lst)
        _run_real(r, inc, exc, sast)
        pats = list(Oracle.compiled)
        wilds = list(dict.fromkeys(e for e in (lst if lst else DEFAULT_EXCLUDED_CODEMODS) if "*" in e))
        if len(pats) != len(wilds):
            # no regex captured for some wildcard: witness cells instead of decision vectors - for every truth
            # assignment of the REFERENCE globs over the n ids that z3 can realise, run the real code concretely
            uncaptured += 1
            if not lst or uncaptured > 24:
                continue  # default excludes: nothing to vary; beyond 24 configurations the fallback is not extended (stated in the evidence)
            keys_ref = [(w_, sid) for w_ in wilds for sid in SENT[:n]]
            for bits in itertools.product([False, True], repeat=len(keys_ref)):
                tq = time.time()
                res, model = _feasible(keys_ref, bits, {w_: w_ for w_ in wilds}, n)
                zt += time.time() - tq
                n_q += 1
                if res != "sat":
                    continue
                n_vec += 1
                inc_c, exc_c = (_subst(lst, model), None) if mode == "include" else (None, _subst(lst, model))
                g2, e2 = _concrete_replay(model, origins, inc_c, exc_c, sast)
                if g2 != e2:
                    violations.append({"mode": mode, "list": _subst(lst, model), "ids": model, "origins": origins, "sast_only": sast, "real": g2, "reference": e2})
                    break
            if len(violations) >= 5:
                break
            continue
        wild_of = dict(zip(pats, wilds))
        pat_of = {w: p for p, w in wild_of.items()}
        keys = [(p, sid) for p in pats for sid in SENT[:n]]
        for bits in itertools.product([False, True], repeat=len(keys)):
            n_vec += 1
            Oracle.vec = dict(zip(keys, bits))
            got = _run_real(r, inc, exc, sast)
            wm = lambda w, i: Oracle.vec[(pat_of[w], i)]
            if mode == "include":
                exp = ref_select_include(lst, SENT[:n], origins, wm)
            else:
                exp = ref_select_exclude(lst, SENT[:n], origins, sast, wm)
            if got == exp:
                continue
            n_diff += 1
            tq = time.time()
            res, model = _feasible(keys, bits, wild_of, n)
            zt += time.time() - tq
            n_q += 1
            if res == "sat":
                inc_c, exc_c = (_subst(lst, model), None) if mode == "include" else (None, _subst(lst, model))
                g2, e2 = _concrete_replay(model, origins, inc_c, exc_c, sast)
                if g2 != e2:
                    violations.append({"mode": mode, "list": _subst(lst, model), "ids": model, "origins": origins, "sast_only": sast, "real": g2, "reference": e2})
                    if len(violations) >= 5:
                        break
        if len(violations) >= 5:
            break
        if len(samples) < 3 and pats:
            samples.append({"mode": mode, "list": [e.replace("\x00", "<") for e in lst], "patterns": pats, "vectors": 2 ** len(keys)})
    reg.re = REAL_RE
    rec = {
        "name": "structure:decision-vectors",
        "engine": "E3-decision-vector+z3",
        "evaluations": n_vec,
        "distinct_nontrivial": n_cfg,
        "z3_checks": n_q,
        "z3_time_s": round(zt, 3),
        "sample": {"configurations": n_cfg, "vectors": n_vec, "differing_vectors": n_diff, "feasibility_queries": n_q, "configurations_without_captured_regex": uncaptured, "examples": samples, "wall_s": round(time.time() - t0, 1)},
    }
    if violations:
        v = violations[0]
        if "ids" in v:
            rec["verdict"] = "violation"
            rec["detail"] = "%s list %r over registry %r (origins %r, sast_only=%r): real %r, reference %r" % (v["mode"], v["list"], v["ids"], v["origins"], v["sast_only"], v["real"], v["reference"])
            inc_c, exc_c = (v["list"], None) if v["mode"] == "include" else (None, v["list"])
            rec["replay"] = _write_replay("structure", v["ids"], v["origins"], inc_c, exc_c, v["sast_only"])
        else:
            rec["verdict"] = "harness_error"
            rec["detail"] = v["detail"]
    elif uncaptured:
        rec["verdict"] = "inconclusive"
        rec["detail"] = "%d configurations matched a wildcard without re.compile: decided on solver-generated witness ids only" % uncaptured
    else:
        rec["verdict"] = "discharged"
    return [rec]


def planted(tier_name):
    """Self-test: an un-anchored, un-escaped translation ('a.b*' -> regex 'a.b.*' with .match) must be told apart
    from the reference glob by the same z3 query."""
    ident = z3.String("id")
    s = z3.Solver()
    s.add(z3.InRe(ident, IDLANG), z3.Length(ident) <= 64)
    s.add(z3.InRe(ident, symre.method_lang("a.b.*", "match")) != z3.InRe(ident, symre.glob_star_only("a.b*")))
    r = str(s.check())
    return [{"name": "planted:unescaped-dot", "engine": "E3-z3-regex", "verdict": "discharged" if r == "sat" else "inconclusive", "evaluations": 1, "distinct_nontrivial": 1, "z3_checks": 1,
             "detail": "planted defect " + ("found: id %r" % s.model()[ident].as_string() if r == "sat" else "NOT found")}]


def eligibility_mode(n_sarif: int, t0: int, has_sonar: bool, has_dd: bool, hotspots: bool) -> bool:
    """codemodder.run (collaborators stubbed, see C20): the eligible set handed to match_codemods is the tool-specific
    one exactly when Sonar issue files or SARIF files (of any tool) are supplied; Sonar hotspot files or DefectDojo
    files alone leave find-and-fix mode on.
    pre: 0 <= n_sarif <= 1
    post: _
    """
    from harness import c20
    from vlib.core import fin

    return fin(c20._eligibility(n_sarif, t0, has_sonar, has_dd, hotspots))


CLI_VALUES = ["", ",", ",,", "a1", "a1,", ",a1", "a1,,b1", "nope", "a1,a1", "b1,a1"]


def cli_list_to_selection(v: int, exclude_mode: bool) -> bool:
    """From the command line to the selection: the real cli.parse_args (CsvListAction) on `--codemod-include=<value>` /
    `--codemod-exclude=<value>` for 10 values (empty, only commas, ids with leading / trailing / doubled commas, an
    unknown id, a repeated id, two ids) feeds the real match_codemods over a registry {a1, b1}: an include option that
    names no known codemod selects NOTHING (it is not treated as absent); listed ids run once, in the order given; an
    exclude option removes exactly the listed ids.
    post: _
    """
    import contextlib
    import io

    import codemodder.cli as cli
    from vlib.core import fin

    k = 0
    while k < len(CLI_VALUES) - 1:
        if v % len(CLI_VALUES) == k:
            break
        k += 1
    value = CLI_VALUES[k]
    ids = ["a1", "b1"]
    r = registry(ids, ["pixee", "pixee"])
    argv = ["D", ("--codemod-exclude=" if exclude_mode else "--codemod-include=") + value]
    buf = io.StringIO()
    try:
        with contextlib.redirect_stdout(buf), contextlib.redirect_stderr(buf):
            ns = cli.parse_args(argv, r)
    except SystemExit:
        return fin(True)  # rejected loudly at the command line: nothing runs
    saved = reg.re
    reg.re = REAL_RE
    try:
        got = [c.id for c in r.match_codemods(ns.codemod_include, ns.codemod_exclude)]
    finally:
        reg.re = saved
    named = [x for x in value.split(",") if x]
    if exclude_mode:
        exp = [i for i in ids if i not in named]
    else:
        exp = list(dict.fromkeys(x for x in named if x in ids))
    return fin(got == exp)


def warmup():
    eligibility_mode(1, 2, False, True, True)
    cli_list_to_selection(3, False)
    cli_list_to_selection(0, True)


SPEC = {
    "property": "C17",
    "level": "model_checking",
    "files": ["src/codemodder/registry.py", "src/codemodder/codemodder.py"],
    "functions": ["codemodder.codemodder.run (how the eligibility mode is derived from the command line)", "codemodder.cli.parse_args / CsvListAction feeding match_codemods (10 option values x include / exclude)", "codemodder.registry.CodemodRegistry.match_codemods / add_codemod_collection", "DEFAULT_EXCLUDED_CODEMODS", "the regular expressions match_codemods compiles (captured at run time)"],
    "bounds": {
        "quick": "registry of n = 2 codemods (ids symbolic z3 strings, |id| <= 64, printable non-space ASCII without ',' and '*'), origins in {pixee, sonar}; include / exclude lists of length <= 2 over {id of codemod i, an unknown id, 3 wildcard templates}; both eligibility modes; all 2^k decision vectors per configuration; primitive lemmas for 7 wildcard templates in both modes",
        "thorough": "n = 3 codemods, lists of length <= 3 over all 7 wildcard templates (<= 3 wildcards per list)",
    },
    "assumptions": [
        "codemod ids are non-empty strings of printable non-space ASCII without ',' and '*'",
        "reference glob: whole-id match in which '*' is the only special character",
        "symre's regex translation is validated against `re` on sample strings on every run",
        "include / exclude lists do not repeat an identical entry (cli.CsvListAction removes such repeats)",
    ],
    "stubs": ["re.compile in codemodder.registry (decision-vector pattern objects recording pattern string, flags and method)", "logger", "codemods (objects with id / origin / default_extensions)"],
    "outside": ["load_registered_codemods / entry points (C11)", "CLI de-duplication of comma lists (C20's cli vocabulary)", "registries with more than 3 codemods"],
    "rule": "evaluations = decision vectors executed through the real match_codemods; distinct_nontrivial = distinct (mode, list, eligibility, origins) configurations; solver queries = regex-equivalence lemmas + feasibility of differing vectors",
    "drivers": [primitive_lemmas, structure, planted],
    "xh": [__import__("vlib.main", fromlist=["Xh"]).Xh("eligibility_mode", 200, 400), __import__("vlib.main", fromlist=["Xh"]).Xh("cli_list_to_selection", 100, 200)],
}
