"""C16 — hardening codemods make only their documented edit (argument-surgery kernels).

The call's argument list is symbolic in *shape*: per argument a keyword selector (none / one of the codemod's
keywords / an unrelated keyword) and a star selector, constrained to orderings libcst accepts.  The real
replace_args / make_new_arg / add_arg_to_call / update_arg_target / update_call_target / _choose_new_args run on it.
"""
from typing import List, Tuple

import libcst as cst
from libcst import matchers

import codemodder.codemods.libcst_transformer as lt
from codemodder.codemods.libcst_transformer import LibcstResultTransformer, NewArg
from core_codemods.secure_cookie_mixin import SecureCookieMixin
from vlib.core import fin, tier
from vlib.main import Xh

KW = [None, "verify", "timeout", "other"]
NARGS = tier(3, 4)
_pe = cst.parse_expression
_cache = {}


def _parse_expression(s):
    """cst.parse_expression is native; the values handed to it are the codemods' concrete constants: memoise."""
    if s not in _cache:
        _cache[s] = _pe(s)
    return _cache[s]


class _CstShim:
    def __getattr__(self, k):
        if k == "parse_expression":
            return _parse_expression
        return getattr(cst, k)


lt.cst = _CstShim()


class Stub:
    make_new_arg = LibcstResultTransformer.make_new_arg


def _kw(i: int):
    if i % 4 == 0:
        return None
    if i % 4 == 1:
        return "verify"
    if i % 4 == 2:
        return "timeout"
    return "other"


def mkargs(spec: List[Tuple[int, int]]):
    """Arguments in a libcst-valid order: positional (possibly *starred) before keywords and ** expansions; no
    keyword twice."""
    out, seen_kw, kws = [], False, set()
    k = 0
    for ksel, star in spec:
        kw = _kw(ksel)
        if kw is None:
            st = "*" if star % 3 == 1 else ("**" if star % 3 == 2 else "")
            if seen_kw and st != "**":
                return None
            if st == "**":
                seen_kw = True  # nothing positional may follow a ** expansion
            out.append(cst.Arg(value=cst.Name("p%d" % k), star=st))
        else:
            if kw in kws:
                return None
            kws.add(kw)
            seen_kw = True
            spaced = star % 2 == 1
            eq = cst.AssignEqual(whitespace_before=cst.SimpleWhitespace(" " if spaced else ""), whitespace_after=cst.SimpleWhitespace(" " if spaced else ""))
            out.append(cst.Arg(value=cst.Name("v%d" % k), keyword=cst.Name(kw), equal=eq))
        k += 1
    return out


def replace_args_only_named(spec: List[Tuple[int, int]], add1: bool, add2: bool, two: bool) -> bool:
    """replace_args with NewArg('verify') [and NewArg('timeout')]: every argument not named by a NewArg is the
    identical node at the same index; a named one keeps its position, keyword and '=' spacing and takes the new
    value; a missing one is appended (in NewArg order) iff add_if_missing; nothing else is added or dropped.
    pre: len(spec) <= NARGS
    post: _
    """
    args = mkargs(spec)
    if args is None:
        return fin(True)
    call = cst.Call(func=cst.Name("f"), args=args)
    infos = [NewArg(name="verify", value="True", add_if_missing=add1)]
    if two:
        infos.append(NewArg(name="timeout", value="60", add_if_missing=add2))
    names = [i.name for i in infos]
    adds = {i.name: i.add_if_missing for i in infos}
    vals = {"verify": "True", "timeout": "60"}
    new = LibcstResultTransformer.replace_args(Stub(), call, list(infos))
    ok = len(new) >= len(args)
    present = set()
    for i, a in enumerate(args):
        if i >= len(new):
            return False
        kw = a.keyword.value if a.keyword is not None else None
        if kw in names:
            present.add(kw)
            n = new[i]
            ok = ok and n.keyword is not None and n.keyword.value == kw and n.equal is a.equal and n.star == "" and cst.Module([]).code_for_node(n.value) == vals[kw]
        else:
            ok = ok and new[i] is a
    tail = [n for n in names if n not in present and adds[n]]
    ok = ok and len(new) == len(args) + len(tail)
    for j, n in enumerate(tail):
        extra = new[len(args) + j]
        ok = ok and extra.keyword is not None and extra.keyword.value == n and cst.Module([]).code_for_node(extra.value) == vals[n]
    return fin(ok)


def add_arg_and_targets(spec: List[Tuple[int, int]]) -> bool:
    """add_arg_to_call appends exactly one keyword argument and keeps every existing argument node;
    update_call_target swaps the callee for `<target>.<name>` and keeps the argument nodes; update_arg_target
    keeps Arg nodes and wraps bare values.
    pre: len(spec) <= NARGS
    post: _
    """
    args = mkargs(spec)
    if args is None:
        return fin(True)
    call = cst.Call(func=cst.Attribute(value=cst.Name("yaml"), attr=cst.Name("load")), args=args)
    c2 = LibcstResultTransformer.add_arg_to_call(Stub(), call, "Loader", "yaml.SafeLoader")
    ok = len(c2.args) == len(args) + 1 and all(c2.args[i] is args[i] for i in range(len(args))) and c2.func is call.func
    last = c2.args[-1]
    ok = ok and last.keyword.value == "Loader" and cst.Module([]).code_for_node(last.value) == "yaml.SafeLoader"
    c3 = LibcstResultTransformer.update_call_target(Stub(), call, "defusedxml.ElementTree")
    ok = ok and cst.Module([]).code_for_node(c3.func) == "defusedxml.ElementTree.load" and len(c3.args) == len(args) and all(c3.args[i] is args[i] for i in range(len(args)))
    c4 = LibcstResultTransformer.update_arg_target(Stub(), call, [cst.Name("bare")] + list(args))
    ok = ok and all(c4.args[i + 1] is args[i] for i in range(len(args))) and isinstance(c4.args[0], cst.Arg) and c4.args[0].value.value == "bare" and c4.func is call.func
    return fin(ok)


def cookie_args(has_samesite: bool, strict: bool, single_quotes: bool, other: bool) -> bool:
    """SecureCookieMixin._choose_new_args: always secure=True and httponly=True (added if missing); samesite='Lax'
    unless the call already passes samesite='Strict'; nothing else.
    post: _
    """
    args = [cst.Arg(value=cst.SimpleString("'k'"))]
    if other:
        args.append(cst.Arg(keyword=cst.Name("path"), value=cst.SimpleString("'/'")))
    if has_samesite:
        val = "Strict" if strict else "None"
        q = "'" if single_quotes else '"'
        args.append(cst.Arg(keyword=cst.Name("samesite"), value=cst.SimpleString(q + val + q)))
    call = cst.Call(func=cst.Name("set_cookie"), args=args)
    got = [(a.name, a.value, a.add_if_missing) for a in SecureCookieMixin._choose_new_args(None, call)]
    exp = [("secure", "True", True), ("httponly", "True", True)]
    keeps_strict = has_samesite and strict and single_quotes
    if not keeps_strict:
        # a Strict value written with double quotes is also replaced by 'Lax' (the matcher compares the literal text)
        if has_samesite and strict and not single_quotes:
            return fin(got[:2] == exp)
        exp.append(("samesite", "'Lax'", True))
    return fin(got == exp)


def https_proxy_config_arg(n_pos: int, n_kw: int) -> bool:
    """HTTPSConnectionModifier.updated_args: HTTPConnectionPool's 10th positional parameter (_proxy_config) does
    not line up with HTTPSConnectionPool's, so exactly that argument is turned into a keyword when it is passed
    positionally; every other argument - positional or keyword, before or after it - is the identical node.
    pre: 0 <= n_pos <= 11 and 0 <= n_kw <= 2
    post: _
    """
    from core_codemods.https_connection import HTTPSConnectionModifier

    args = [cst.Arg(value=cst.Name("p%d" % i)) for i in range(n_pos)] + [cst.Arg(value=cst.Name("k%d" % i), keyword=cst.Name("kw%d" % i)) for i in range(n_kw)]
    stub = type("S", (), {"count_positional_args": HTTPSConnectionModifier.count_positional_args})()
    new = HTTPSConnectionModifier.updated_args(stub, list(args))
    ok = len(new) == len(args)
    for i, a in enumerate(args):
        if n_pos == 10 and i == 9:
            ok = ok and new[i].keyword is not None and new[i].keyword.value == "_proxy_config" and new[i].value is a.value
        else:
            ok = ok and new[i] is a
    return fin(ok)


def _harden(idx: int, style: int, args: int, decoy: int) -> bool:
    from harness import hardenfam
    from vlib.core import known_active

    entry = hardenfam.TABLE[idx]
    verdict = hardenfam.check(entry, style, args, decoy)
    if verdict is not None and entry[0] == "use-defusedxml" and style % 4 == 0 and decoy % 3 == 1 and known_active("C16/local-import-alias-shadowing-a-dotted-module"):
        return True  # recorded known finding (see known_findings.json)
    return verdict is None


def harden_defusedxml(style: int, args: int, decoy: int) -> bool:
    """use-defusedxml, complete real pipeline, on a module whose import style (import M / import M as al / from M
    import F / from M import F as G), argument list and surroundings (nothing, a function that re-binds the same
    spelling to ANOTHER import and calls it, an unrelated call with the same arguments) are symbolic: the output
    parses, every argument of the hardened call is kept in order, other statements are unchanged, the safe API appears.
    post: _
    """
    return fin(_harden(0, style, args, decoy))


def harden_pickle(style: int, args: int, decoy: int) -> bool:
    """harden-pickle-load on the same family.
    post: _
    """
    return fin(_harden(1, style, args, decoy))


def harden_https(style: int, args: int, decoy: int) -> bool:
    """https-connection on the same family.
    post: _
    """
    return fin(_harden(2, style, args, decoy))


def harden_shell_false(style: int, args: int, decoy: int) -> bool:
    """subprocess-shell-false on the same family (documented argument edit: shell=True -> shell=False).
    post: _
    """
    return fin(_harden(3, style, args, decoy))


def _sast(name: str, style: int, args: int, decoy: int, layout: int) -> bool:
    from harness import hardsast

    return hardsast.check(name, style, args, decoy, layout) is None


def sast_requests_verify(style: int, args: int, decoy: int, layout: int) -> bool:
    """requests-verify (detector-driven): complete real transformer chain with ONE result placed on the vulnerable call of a
    selector-built module (import style x argument list x unreported identical call / unrelated call x layout).  The
    token delta lies inside the documented edit, arguments are kept in order, unreported statements are unchanged,
    the output compiles and no name becomes unresolved.
    post: _
    """
    return fin(_sast("requests-verify", style, args, decoy, layout))


def sast_add_requests_timeouts(style: int, args: int, decoy: int, layout: int) -> bool:
    """add-requests-timeouts (detector-driven): complete real transformer chain with ONE result placed on the vulnerable call of a
    selector-built module (import style x argument list x unreported identical call / unrelated call x layout).  The
    token delta lies inside the documented edit, arguments are kept in order, unreported statements are unchanged,
    the output compiles and no name becomes unresolved.
    post: _
    """
    return fin(_sast("add-requests-timeouts", style, args, decoy, layout))


def sast_harden_pyyaml(style: int, args: int, decoy: int, layout: int) -> bool:
    """harden-pyyaml (detector-driven): complete real transformer chain with ONE result placed on the vulnerable call of a
    selector-built module (import style x argument list x unreported identical call / unrelated call x layout).  The
    token delta lies inside the documented edit, arguments are kept in order, unreported statements are unchanged,
    the output compiles and no name becomes unresolved.
    post: _
    """
    return fin(_sast("harden-pyyaml", style, args, decoy, layout))


def sast_enable_jinja2_autoescape(style: int, args: int, decoy: int, layout: int) -> bool:
    """enable-jinja2-autoescape (detector-driven): complete real transformer chain with ONE result placed on the vulnerable call of a
    selector-built module (import style x argument list x unreported identical call / unrelated call x layout).  The
    token delta lies inside the documented edit, arguments are kept in order, unreported statements are unchanged,
    the output compiles and no name becomes unresolved.
    post: _
    """
    return fin(_sast("enable-jinja2-autoescape", style, args, decoy, layout))


def sast_safe_lxml_parser_defaults(style: int, args: int, decoy: int, layout: int) -> bool:
    """safe-lxml-parser-defaults (detector-driven): complete real transformer chain with ONE result placed on the vulnerable call of a
    selector-built module (import style x argument list x unreported identical call / unrelated call x layout).  The
    token delta lies inside the documented edit, arguments are kept in order, unreported statements are unchanged,
    the output compiles and no name becomes unresolved.
    post: _
    """
    return fin(_sast("safe-lxml-parser-defaults", style, args, decoy, layout))


def sast_safe_lxml_parsing(style: int, args: int, decoy: int, layout: int) -> bool:
    """safe-lxml-parsing (detector-driven): complete real transformer chain with ONE result placed on the vulnerable call of a
    selector-built module (import style x argument list x unreported identical call / unrelated call x layout).  The
    token delta lies inside the documented edit, arguments are kept in order, unreported statements are unchanged,
    the output compiles and no name becomes unresolved.
    post: _
    """
    return fin(_sast("safe-lxml-parsing", style, args, decoy, layout))


def sast_secure_random(style: int, args: int, decoy: int, layout: int) -> bool:
    """secure-random (detector-driven): complete real transformer chain with ONE result placed on the vulnerable call of a
    selector-built module (import style x argument list x unreported identical call / unrelated call x layout).  The
    token delta lies inside the documented edit, arguments are kept in order, unreported statements are unchanged,
    the output compiles and no name becomes unresolved.
    post: _
    """
    return fin(_sast("secure-random", style, args, decoy, layout))


def sast_sandbox_process_creation(style: int, args: int, decoy: int, layout: int) -> bool:
    """sandbox-process-creation (detector-driven): complete real transformer chain with ONE result placed on the vulnerable call of a
    selector-built module (import style x argument list x unreported identical call / unrelated call x layout).  The
    token delta lies inside the documented edit, arguments are kept in order, unreported statements are unchanged,
    the output compiles and no name becomes unresolved.
    post: _
    """
    return fin(_sast("sandbox-process-creation", style, args, decoy, layout))


def sast_url_sandbox(style: int, args: int, decoy: int, layout: int) -> bool:
    """url-sandbox (detector-driven): complete real transformer chain with ONE result placed on the vulnerable call of a
    selector-built module (import style x argument list x unreported identical call / unrelated call x layout).  The
    token delta lies inside the documented edit, arguments are kept in order, unreported statements are unchanged,
    the output compiles and no name becomes unresolved.
    post: _
    """
    return fin(_sast("url-sandbox", style, args, decoy, layout))


def sast_upgrade_sslcontext_tls(style: int, args: int, decoy: int, layout: int) -> bool:
    """upgrade-sslcontext-tls (detector-driven): complete real transformer chain with ONE result placed on the vulnerable call of a
    selector-built module (import style x argument list x unreported identical call / unrelated call x layout).  The
    token delta lies inside the documented edit, arguments are kept in order, unreported statements are unchanged,
    the output compiles and no name becomes unresolved.
    post: _
    """
    return fin(_sast("upgrade-sslcontext-tls", style, args, decoy, layout))


def sast_limit_readline(style: int, args: int, decoy: int, layout: int) -> bool:
    """limit-readline (detector-driven): complete real transformer chain with ONE result placed on the vulnerable call of a
    selector-built module (import style x argument list x unreported identical call / unrelated call x layout).  The
    token delta lies inside the documented edit, arguments are kept in order, unreported statements are unchanged,
    the output compiles and no name becomes unresolved.
    post: _
    """
    return fin(_sast("limit-readline", style, args, decoy, layout))


def sast_secure_flask_cookie(style: int, args: int, decoy: int, layout: int) -> bool:
    """secure-flask-cookie (detector-driven): complete real transformer chain with ONE result placed on the vulnerable call of a
    selector-built module (import style x argument list x unreported identical call / unrelated call x layout).  The
    token delta lies inside the documented edit, arguments are kept in order, unreported statements are unchanged,
    the output compiles and no name becomes unresolved.
    post: _
    """
    return fin(_sast("secure-flask-cookie", style, args, decoy, layout))


def sast_jwt_decode_verify(style: int, args: int, decoy: int, layout: int) -> bool:
    """jwt-decode-verify (detector-driven): complete real transformer chain with ONE result placed on the vulnerable call of a
    selector-built module (import style x argument list x unreported identical call / unrelated call x layout).  The
    token delta lies inside the documented edit, arguments are kept in order, unreported statements are unchanged,
    the output compiles and no name becomes unresolved.
    post: _
    """
    return fin(_sast("jwt-decode-verify", style, args, decoy, layout))


def sast_harden_ruamel(style: int, args: int, decoy: int, layout: int) -> bool:
    """harden-ruamel (detector-driven): complete real transformer chain with ONE result placed on the vulnerable call of a
    selector-built module (import style x argument list x unreported identical call / unrelated call x layout).  The
    token delta lies inside the documented edit, arguments are kept in order, unreported statements are unchanged,
    the output compiles and no name becomes unresolved.
    post: _
    """
    return fin(_sast("harden-ruamel", style, args, decoy, layout))


def sast_django_json_response_type(style: int, args: int, decoy: int, layout: int) -> bool:
    """django-json-response-type (detector-driven): complete real transformer chain with ONE result placed on the vulnerable call of a
    selector-built module (import style x argument list x unreported identical call / unrelated call x layout).  The
    token delta lies inside the documented edit, arguments are kept in order, unreported statements are unchanged,
    the output compiles and no name becomes unresolved.
    post: _
    """
    return fin(_sast("django-json-response-type", style, args, decoy, layout))


def hard_math_isclose(style: int, args: int, decoy: int, layout: int) -> bool:
    """fix-math-isclose (detector-less: the transformer finds its own sites) on the selector-built family of harness/hardsast.py
    (import style x argument list x surroundings x layout): the documented edit and nothing else - token delta inside
    the documented one, arguments kept in order (secure-tempfile: suffix / prefix / dir carried over under their own
    names into NamedTemporaryFile(.., delete=False)), other statements unchanged, output compiles, no unresolved name.
    post: _
    """
    return fin(_sast("fix-math-isclose", style, args, decoy, layout))


def hard_timezone_utcnow(style: int, args: int, decoy: int, layout: int) -> bool:
    """timezone-aware-datetime (detector-less: the transformer finds its own sites) on the selector-built family of harness/hardsast.py
    (import style x argument list x surroundings x layout): the documented edit and nothing else - token delta inside
    the documented one, arguments kept in order (secure-tempfile: suffix / prefix / dir carried over under their own
    names into NamedTemporaryFile(.., delete=False)), other statements unchanged, output compiles, no unresolved name.
    post: _
    """
    return fin(_sast("timezone-aware-datetime", style, args, decoy, layout))


def hard_timezone_fromtimestamp(style: int, args: int, decoy: int, layout: int) -> bool:
    """timezone-aware-datetime/fromtimestamp (detector-less: the transformer finds its own sites) on the selector-built family of harness/hardsast.py
    (import style x argument list x surroundings x layout): the documented edit and nothing else - token delta inside
    the documented one, arguments kept in order (secure-tempfile: suffix / prefix / dir carried over under their own
    names into NamedTemporaryFile(.., delete=False)), other statements unchanged, output compiles, no unresolved name.
    post: _
    """
    return fin(_sast("timezone-aware-datetime/fromtimestamp", style, args, decoy, layout))


def hard_secure_tempfile(style: int, args: int, decoy: int, layout: int) -> bool:
    """secure-tempfile (detector-less: the transformer finds its own sites) on the selector-built family of harness/hardsast.py
    (import style x argument list x surroundings x layout): the documented edit and nothing else - token delta inside
    the documented one, arguments kept in order (secure-tempfile: suffix / prefix / dir carried over under their own
    names into NamedTemporaryFile(.., delete=False)), other statements unchanged, output compiles, no unresolved name.
    post: _
    """
    return fin(_sast("secure-tempfile", style, args, decoy, layout))


def planted_drop_arg(spec: List[Tuple[int, int]]) -> bool:
    """Self-test: a replace that drops an unrelated keyword argument must be refuted.
    pre: len(spec) <= 2
    post: _
    """
    args = mkargs(spec)
    if args is None:
        return True
    new = [a for a in args if not (a.keyword is not None and a.keyword.value == "other")]
    return len(new) == len(args)


def warmup():
    replace_args_only_named([(0, 0), (1, 1), (3, 0)], True, True, True)
    replace_args_only_named([(0, 1)], False, True, True)
    add_arg_and_targets([(0, 0), (3, 1)])
    cookie_args(True, True, True, True)
    cookie_args(False, False, False, False)
    https_proxy_config_arg(10, 1)
    https_proxy_config_arg(3, 2)
    for _i in range(4):
        _harden(_i, 2, 1, 1)
    from harness import hardsast

    for _n in hardsast.ORDER:
        hardsast.check(_n, 1, 1, 1, 1)


SPEC = {
    "property": "C16",
    "level": "model_checking",
    "files": ["src/codemodder/codemods/libcst_transformer.py", "src/core_codemods/secure_cookie_mixin.py", "src/core_codemods/https_connection.py"],
    "functions": [
        "LibcstResultTransformer.replace_args / make_new_arg / add_arg_to_call / update_arg_target / update_call_target",
        "codemodder.codemods.libcst_transformer._match_with_existing_arg",
        "SecureCookieMixin._choose_new_args",
        "HTTPSConnectionModifier.updated_args / count_positional_args",
        "the complete real pipelines of use-defusedxml, harden-pickle-load, https-connection, subprocess-shell-false (ImportedCallModifier / NameResolutionMixin / import add-remove) on selector-built modules",
        "the complete real transformer chains of 15 detector-driven hardening codemods (requests-verify, add-requests-timeouts, harden-pyyaml, harden-ruamel, jwt-decode-verify, enable-jinja2-autoescape, safe-lxml-parser-defaults, safe-lxml-parsing, secure-random, secure-flask-cookie, sandbox-process-creation, url-sandbox, upgrade-sslcontext-tls, limit-readline, django-json-response-type) with one result placed on the vulnerable call",
        "the complete real pipelines of the detector-less fix-math-isclose, timezone-aware-datetime (utcnow, utcfromtimestamp) and secure-tempfile on the same family",
    ],
    "bounds": {
        "quick": "calls with <= 3 arguments (thorough 4): per argument keyword selector {positional, verify, timeout, other} and star (none, *, **) / '=' spacing selector, libcst-valid orderings without repeated keywords; 1-2 NewArgs with symbolic add_if_missing",
        "thorough": "<= 4 arguments",
        "families": "4 import styles x 3-4 argument lists x 3 surroundings (x 3 layouts for the detector-driven family: one line, one argument per line with trailing comma, inside a function body); selectors are unbounded symbolic ints reduced by the harness",
    },
    "assumptions": [
        "cst.parse_expression (native) is memoised on the concrete constant strings the codemods pass",
        "a call does not repeat a keyword (invalid Python)",
        "detector-driven family: semgrep is absent, the detector is replaced by its contract - one result located exactly on the vulnerable call expression (SARIF convention, 1-based columns); which calls semgrep would report is not decided here",
        "documented deltas of the detector-driven family are transcribed from src/core_codemods/docs/*.md as upper bounds on the NAME / NUMBER / STRING token multiset difference",
    ],
    "stubs": ["self (object carrying only make_new_arg)", "cst.parse_expression memoisation"],
    "outside": ["the semgrep rules themselves (which calls are reported)", "hardening codemods outside the whole-pipeline families (django settings codemods, upgrade-sslcontext-minimum-version, flask session configuration / csrf, graphql introspection); secure-tempfile with non-literal arguments (the transformer raises: the file is reported failed, C10)", "argument pools beyond 3-4 shapes per codemod (positional / keyword / star / nested call)"],
    "xh": [
        Xh("replace_args_only_named", 400, 1200),
        Xh("add_arg_and_targets", 200, 600),
        Xh("cookie_args", 100, 200),
        Xh("https_proxy_config_arg", 150, 300),
        Xh("harden_defusedxml", 200, 400),
        Xh("harden_pickle", 200, 400),
        Xh("harden_https", 200, 400),
        Xh("harden_shell_false", 200, 400),
        Xh("sast_requests_verify", 200, 400),
        Xh("sast_add_requests_timeouts", 200, 400),
        Xh("sast_harden_pyyaml", 200, 400),
        Xh("sast_enable_jinja2_autoescape", 200, 400),
        Xh("sast_safe_lxml_parser_defaults", 200, 400),
        Xh("sast_safe_lxml_parsing", 200, 400),
        Xh("sast_secure_random", 200, 400),
        Xh("sast_sandbox_process_creation", 200, 400),
        Xh("sast_url_sandbox", 200, 400),
        Xh("sast_upgrade_sslcontext_tls", 200, 400),
        Xh("sast_limit_readline", 200, 400),
        Xh("sast_secure_flask_cookie", 200, 400),
        Xh("sast_jwt_decode_verify", 200, 400),
        Xh("sast_harden_ruamel", 200, 400),
        Xh("sast_django_json_response_type", 200, 400),
        Xh("hard_math_isclose", 200, 400),
        Xh("hard_timezone_utcnow", 200, 400),
        Xh("hard_timezone_fromtimestamp", 200, 400),
        Xh("hard_secure_tempfile", 200, 400),
        Xh("planted_drop_arg", 60, 120, twin=False, expect="refuted"),
    ],
}
