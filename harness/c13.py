"""C13 — line-level include/exclude is honoured and change entries name the edited line.

Symbolic: the line number carried by a `path:line` pattern, the spelling of the path part (selector into
relative / glob / absolute / other-file spellings), node line ranges, include / exclude line lists.
"""
from pathlib import Path
from typing import List, Tuple

import libcst as cst
from libcst._position import CodePosition, CodeRange

import codemodder.codemods.base_codemod as bc
import core_codemods.remove_unused_imports as rui
from codemodder.code_directory import file_line_patterns
from codemodder.codemods.base_codemod import FindAndFixCodemod, Metadata, ReviewGuidance
from codemodder.codemods.base_visitor import UtilsMixin, match_line
from harness.c06 import PyChange, _Mixin, _pos
from vlib.core import NoLog, fin
from vlib.main import Xh

bc.logger = NoLog()
FILE_ABS = "/proj/pkg/mod.py"
#                 spelling                       denotes /proj/pkg/mod.py ?
SPELLINGS = [
    ("pkg/mod.py", True),          # relative to the target, like any other pattern
    ("**/mod.py", True),           # glob
    ("*.py", True),                # glob (fnmatch's * crosses directories)
    ("pkg/*.py", True),            # relative glob
    ("/proj/pkg/mod.py", True),    # absolute
    ("pkg/other.py", False),       # another file
    ("other/**", False),           # another directory
]


def _spelling(k: int):
    i = 0
    while i < len(SPELLINGS) - 1:
        if k % len(SPELLINGS) == i:
            return SPELLINGS[i]
        i += 1
    return SPELLINGS[len(SPELLINGS) - 1]


def _n(i: int) -> int:
    """Line number carried by a pattern: a selector into three concrete values (the int -> str -> int round trip of
    the number itself is Python's, not the repo's; a symbolic number there only multiplies paths)."""
    if i % 3 == 0:
        return 1
    if i % 3 == 1:
        return 7
    return 120


class _Codemod(FindAndFixCodemod):
    @property
    def origin(self):
        return "verif"

    @property
    def docs_module_path(self):
        return "verif"


class _Ctx:
    directory = Path("/proj")
    dry_run = True

    def __init__(self, inc, exc):
        self.path_include, self.path_exclude = inc, exc


def _process(inc, exc):
    seen = []

    class Pipe:
        def apply(self, context, file_context, results):
            seen.append((list(file_context.line_include), list(file_context.line_exclude)))
            return None

    cm = _Codemod(metadata=Metadata(name="n", summary="s", review_guidance=ReviewGuidance.MERGE_WITHOUT_REVIEW, description="d"), transformer=Pipe())
    cm._process_file(Path(FILE_ABS), _Ctx(inc, exc), None, [])
    return seen[0]


def line_patterns_exclude(k: int, n: int, k2: int, n2: int, two: bool) -> bool:
    """BaseCodemod._process_file / file_line_patterns: the excluded lines handed to the transformer are exactly the
    line numbers of the `path:line` exclude patterns whose path part denotes this file (relative, globbed or
    absolute spelling); patterns for other files and plain file patterns contribute nothing.
    post: _
    """
    n, n2 = _n(n), _n(n2)
    sp, denotes = _spelling(k)
    pats = ["%s:%d" % (sp, n), "unrelated/*.txt"]
    exp = [n] if denotes else []
    if two:
        sp2, denotes2 = _spelling(k2)
        pats.append("%s:%d" % (sp2, n2))
        if denotes2:
            exp.append(n2)
    inc, exc = _process([], pats)
    return fin(sorted(set(exc)) == sorted(set(exp)) and inc == [])


def line_patterns_include(k: int, n: int) -> bool:
    """Same for `--path-include path:line`.
    post: _
    """
    n = _n(n)
    sp, denotes = _spelling(k)
    inc, exc = _process(["%s:%d" % (sp, n)], [])
    return fin(inc == ([n] if denotes else []) and exc == [])


def file_line_patterns_direct(n: int, k: int) -> bool:
    """file_line_patterns on the path relative to the target (what the pattern syntax is defined on).
    post: _
    """
    n = _n(n)
    sp, denotes = _spelling(k)
    if sp.startswith("/"):
        return fin(True)
    got = file_line_patterns("pkg/mod.py", ["%s:%d" % (sp, n), "pkg/mod.py"])
    return fin(got == ([n] if denotes else []))


def file_line_patterns_three(k1: int, k2: int, k3: int) -> bool:
    """file_line_patterns over a list of THREE `path:line` entries whose path spellings are symbolic (so that the same
    spelling may recur non-adjacently, e.g. `mod.py:1,other.py:7,mod.py:120`): the result is exactly the line of every
    entry whose path part denotes the file - none is dropped, whatever the order of the entries.
    post: _
    """
    sps = [_spelling(k1), _spelling(k2), _spelling(k3)]
    if any(sp.startswith("/") for sp, _d in sps):
        return fin(True)
    nums = [1, 7, 120]
    got = file_line_patterns("pkg/mod.py", ["%s:%d" % (sp, n) for (sp, _d), n in zip(sps, nums)])
    exp = [n for (sp, d), n in zip(sps, nums) if d]
    return fin(sorted(got) == exp)


def line_filter(sl: int, el: int, exc: List[int], inc: List[int], dup: bool) -> bool:
    """UtilsMixin.filter_by_path_includes_or_excludes (and the copy in remove_unused_imports): a single-line
    construct on an excluded line is not selected; with only includes given it is selected iff its line is
    included; excludes take precedence; without line patterns everything is selected.
    pre: len(exc) <= 3 and len(inc) <= 3 and sl <= el
    post: _
    """
    pos = CodeRange(start=CodePosition(sl, 0), end=CodePosition(el, 5))
    m = _Mixin(None, exc, inc, {})
    if dup:
        got = rui.RemoveUnusedImports.filter_by_path_includes_or_excludes(m, pos)
    else:
        got = m.filter_by_path_includes_or_excludes(pos)
    single = sl == el
    if exc:
        exp = not (single and sl in exc)
    elif inc:
        exp = single and sl in inc
    else:
        exp = True
    return fin(got == exp and match_line(pos, sl) == single and rui.match_line(pos, sl) == single)


def selection_respects_lines(line: int, exc: List[int], inc: List[int], results_none: bool) -> bool:
    """UtilsMixin.node_is_selected: a single-line node on an excluded line (or off every included line) is never
    selected, whatever the detector says; a permitted line is selected when the detector agrees.
    pre: len(exc) <= 2 and len(inc) <= 2
    post: _
    """
    from harness.c06 import R, _loc

    node = cst.parse_expression("f(x)")
    results = None if results_none else [R(rule_id="r", locations=[_loc((line, 1, line, 5))])]
    m = _Mixin(results, exc, inc, {id(node): _pos((line, 0, line, 4))})
    UtilsMixin.results_for_node.cache_clear()
    got = m.node_is_selected(node)
    permitted = (line not in exc) if exc else ((line in inc) if inc else True)
    return fin(got == permitted)


def change_line_number(sl: int, el: int, use_add_change: bool, start: bool) -> bool:
    """LibcstResultTransformer.report_change / add_change: the change entry of an edit names the construct's
    start line (or its end line when asked to), so a one-line edit names its own line.
    pre: 1 <= sl <= el
    post: _
    """
    import codemodder.codemods.libcst_transformer as lt
    from codemodder.file_context import FileContext
    from harness.c06 import _StubTransformer

    lt.Change = PyChange
    node = cst.parse_expression("f(x)")
    fc = FileContext(Path("/d"), Path("/d/f.py"), [], [], None)
    t = _StubTransformer(fc, {id(node): _pos((sl, 0, el, 3))})
    t.lineno_for_node = lambda n: lt.LibcstResultTransformer.lineno_for_node(t, n)
    t.report_change_for_line = lambda *a, **k: lt.LibcstResultTransformer.report_change_for_line(t, *a, **k)
    t.add_change_from_position = lambda *a, **k: lt.LibcstResultTransformer.add_change_from_position(t, *a, **k)
    if use_add_change:
        lt.LibcstResultTransformer.add_change(t, node, "desc", start)
        exp = sl if start else el
    else:
        lt.LibcstResultTransformer.report_change(t, node)
        exp = sl
    (chg,) = fc.codemod_changes
    return fin(chg.lineNumber == exp and (sl != el or chg.lineNumber == sl))


def planted_line_filter_bug(sl: int, exc: List[int]) -> bool:
    """Self-test: a filter that ignores the exclude list must be refuted.
    pre: len(exc) <= 2
    post: _
    """
    got = True  # planted: always selected
    exp = not (sl in exc) if exc else True
    return got == exp


from harness.c13w import *  # noqa: F401,F403  (whole-transformer family: whole_<codemod> obligations)
from harness import c13w


def whole_transformers(tier_name):
    """E3-style: the complete real transformer of each detector-less codemod in c13w.SOURCES runs natively with a
    symbolic line number n as the only exclude (resp. include) line; z3 enumerates the cells of the partition of Z
    induced by the comparisons the code makes against n, one native run per cell."""
    import os

    from vlib.core import ROOT

    recs = []
    for name in c13w.SOURCES:
        for include in (False, True):
            rec = {"name": "whole:%s:%s" % (name, "include" if include else "exclude"), "engine": "E3-cells+z3"}
            try:
                done, atoms, runs, queries = c13w.explore(name, include)
            except c13w.Leak as e:
                rec.update(verdict="inconclusive", detail="the transformer uses the line number other than by comparison: %s" % e, evaluations=0, distinct_nontrivial=0)
                recs.append(rec)
                continue
            bad = {n: v for n, v in done.items() if v is not None}
            rec.update(evaluations=runs, distinct_nontrivial=len(done), z3_checks=queries, sample={"cells": sorted(done), "comparisons_made_by_the_code": sorted(atoms)})
            if bad:
                n = sorted(bad)[0]
                d = os.path.join(ROOT, "replays", "C13")
                os.makedirs(d, exist_ok=True)
                path = os.path.join(d, "whole_%s_%s.py" % (name.replace("-", "_").replace("#", "_"), "include" if include else "exclude"))
                with open(path, "w") as f:
                    f.write("import sys\nsys.path.insert(0, %r)\nfrom harness import c13w\nc13w.warmup()\nfc_lines = [%d]\n"
                            "out, lines, exc = None, None, None\ntry:\n    out, lines = c13w._run(%r, %s, %s)\nexcept Exception as e:\n    exc = '%%s: %%s' %% (type(e).__name__, e)\n"
                            "v = c13w._verdict(%r, %d, %r, out, lines, exc)\nprint(v)\nsys.exit(1 if v else 0)\n" % (ROOT, n, name, "[]" if include else "fc_lines", "fc_lines" if include else "[]", name, n, include))
                rec.update(verdict="violation", replay=path, detail="%s with %s line %d: %s" % (name, "--path-include" if include else "--path-exclude", n, bad[n]))
            else:
                rec["verdict"] = "discharged"
            recs.append(rec)
    for name in c13w.NO_PATTERN_SOURCES:
        v = c13w.no_pattern_verdict(name)
        rec = {"name": "whole:%s:no-patterns" % name, "engine": "concrete-pipeline", "evaluations": 1, "distinct_nontrivial": 1}
        if v:
            rec.update(verdict="violation", detail=v)
        else:
            rec["verdict"] = "discharged"
        recs.append(rec)
    return recs


def warmup():
    c13w.warmup()
    line_patterns_exclude(0, 3, 1, 4, True)
    line_patterns_include(2, 5)
    file_line_patterns_direct(3, 0)
    line_filter(2, 2, [2], [], False)
    line_filter(2, 3, [], [2], True)
    selection_respects_lines(3, [3], [], True)
    selection_respects_lines(3, [], [3], False)
    change_line_number(2, 2, False, True)
    change_line_number(2, 4, True, False)


SPEC = {
    "property": "C13",
    "level": "model_checking",
    "files": [
        "src/codemodder/code_directory.py",
        "src/codemodder/codemods/base_codemod.py",
        "src/codemodder/codemods/base_visitor.py",
        "src/codemodder/codemods/libcst_transformer.py",
        "src/core_codemods/remove_unused_imports.py",
    ],
    "functions": [
        "codemodder.code_directory.file_line_patterns",
        "BaseCodemod._process_file (derivation of line_include / line_exclude)",
        "UtilsMixin.filter_by_path_includes_or_excludes / node_is_selected, base_visitor.match_line",
        "core_codemods.remove_unused_imports.RemoveUnusedImports.filter_by_path_includes_or_excludes / match_line",
        "LibcstResultTransformer.report_change / add_change / add_change_from_position / report_change_for_line",
        "whole-transformer family: the complete real transformers of 16 detector-less codemods with a symbolic excluded / included line number (native runs, one per z3-enumerated cell of the comparisons the code makes against it); invert-boolean-check additionally under CrossHair in the thorough tier",
    ],
    "bounds": {
        "quick": "node lines and include/exclude lines: unbounded symbolic ints; pattern line numbers: selector into {1, 7, 120}; path part: selector into 7 spellings (relative, 3 globs, absolute, other file, other directory); <= 2 line patterns per list in _process_file; include / exclude lists of <= 3 symbolic lines",
        "thorough": "same kernels; whole-transformer family extended from 4 to 16 codemods",
    },
    "assumptions": [
        "the path part of a pattern is one of 7 concrete spellings (fnmatch on a symbolic string is out of CrossHair's reach; glob semantics over all strings are decided by E3 under C05)",
        "node positions come from a table (libcst PositionProvider trusted)",
    ],
    "stubs": ["transformer pipeline (records the FileContext it receives)", "node_position", "codetf.Change in libcst_transformer (pure-Python twin: pydantic-core rejects symbolic ints)", "logger"],
    "outside": ["the ~85 transformers not in the whole-transformer family (semgrep-detected ones need the absent detector)", "multi-line constructs", "edits that add or remove lines elsewhere in the file"],
    "drivers": [whole_transformers],
    "xh": [
        Xh("line_patterns_exclude", 200, 400),
        Xh("line_patterns_include", 120, 300),
        Xh("file_line_patterns_three", 100, 200),
        Xh("file_line_patterns_direct", 120, 300),
        Xh("line_filter", 200, 400),
        Xh("selection_respects_lines", 150, 300),
        Xh("change_line_number", 100, 200),
        Xh("planted_line_filter_bug", 60, 120, twin=False, expect="refuted"),
    ]
    + [Xh(fn, 400, 600, tiers=("thorough",)) for fn in c13w.WHOLE],
}
