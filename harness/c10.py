"""C10 — an unprocessable file is left intact, reported, and does not stop the run.

Fault kinds are symbolic selectors: per file one of {none, invalid UTF-8, syntax error, vanished (read raises),
transformer raises}.  The bytes themselves are concrete representatives of each kind: the *decision* "decoding
/ parsing / transforming raised" is the symbolic variable.
"""
from pathlib import Path

import libcst as cst
from crosshair.tracers import NoTracing

import codemodder.codemods.base_codemod as bc
from codemodder.codemods.base_codemod import FindAndFixCodemod, Metadata, RemediationCodemod, ReviewGuidance
from codemodder.codemods.libcst_transformer import LibcstTransformerPipeline
from codemodder.codetf import Change
from codemodder.context import CodemodExecutionContext
from codemodder.result import ResultSet
from harness import skel
from vlib.core import NoLog, fin, tier
from vlib.main import Xh
from vlib.stubs import Boom, FakePath

bc.logger = NoLog()
NFILES = tier(2, 3)
import codemodder.context as _ctxmod

_ctxmod.logger = NoLog()


def fault_libcst(kind: int, dry_run: bool, r1: bool, c1: bool, a1: bool, r2: bool, c2: bool, a2: bool, nf: int) -> bool:
    """LibcstTransformerPipeline.apply: a file that cannot be read, decoded, parsed or transformed is not
    written, is listed as failed with all its findings unfixed, and no exception escapes.
    pre: 0 <= kind < 4 and 0 <= nf <= 2
    post: _
    """
    fp, fc, o = skel.run_libcst(kind, dry_run, (r1, c1, a1), (r2, c2, a2), nf)
    faulted = kind != 0 or r1 or r2
    if o.exc is not None:
        return False
    if faulted:
        ok = o.writes == [] and o.other == [] and o.cs is None
        ok = ok and o.failures == ["/d/f.py"]
        ok = ok and sorted(u[0] for u in o.unfixed) == ["F%d" % i for i in range(nf)]
        ok = ok and all(u[1] == "f.py" for u in o.unfixed)
        return fin(ok)
    return fin(o.failures == [] and o.unfixed == [])


def fault_regex(kind: int, dry_run: bool, matches: bool, sast: bool, nf: int, line: int) -> bool:
    """Regex / SastRegex pipelines: an undecodable or vanished file, or one on which the (plug-in) substitution step
    raises, is not written, is listed as failed with its findings unfixed, and no exception escapes.
    pre: 0 <= kind < 4 and 0 <= nf <= 2 and 1 <= line <= 3
    post: _
    """
    fp, fc, o = skel.run_regex(kind, dry_run, matches, sast, nf, line)
    if o.exc is not None:
        return False
    if kind == 3:
        # a transformer (plug-in) whose substitution step raises: if it was reached, the file failed like any other
        if not o.failures:
            return fin(o.writes == [] and o.cs is None)
        ok = o.writes == [] and o.other == [] and o.cs is None and o.failures == ["/d/f.txt"]
        return fin(ok and sorted(set(u[0] for u in o.unfixed)) == ["F%d" % i for i in range(nf)])
    if kind != 0:
        ok = o.writes == [] and o.other == [] and o.cs is None and o.failures == ["/d/f.txt"]
        ok = ok and sorted(u[0] for u in o.unfixed) == ["F%d" % i for i in range(nf)]
        return fin(ok)
    return fin(o.failures == [])


def fault_xml(bad: bool, vanished: bool, dry_run: bool, target: bool, nf: int, line: int, results_none: bool) -> bool:
    """XML pipeline: a document that is not XML, or a file that vanishes between parsing and re-reading, is not
    written, is listed as failed with its findings unfixed, and no exception escapes.
    pre: 0 <= nf <= 2 and 1 <= line <= 3
    post: _
    """
    fp, fc, o = skel.run_xml(bad, vanished, dry_run, target, nf, line, results_none)
    if o.exc is not None:
        return False
    n_exp = 0 if results_none else nf
    if bad:
        ok = o.writes == [] and o.cs is None and o.failures == ["/d/c.xml"]
        ok = ok and sorted(u[0] for u in o.unfixed) == ["F%d" % i for i in range(n_exp)]
        return fin(ok)
    if vanished and o.cs is None and o.failures:
        return fin(o.writes == [] and sorted(u[0] for u in o.unfixed) == ["F%d" % i for i in range(n_exp)])
    if vanished:
        # the file could not be re-read: either nothing was going to change, or it must be a failure
        return fin(o.writes == [] and o.cs is None)
    return fin(o.failures == [])


# ------------------------------------------------------------------ whole codemod over n files
class _StubCodemod(FindAndFixCodemod):
    @property
    def origin(self):
        return "verif"

    @property
    def docs_module_path(self):
        return "verif"


CONTENT = {0: skel.SRC_TEXT.encode(), 1: b"a = '\xff'\n", 2: b"def (:\n", 3: b"", 4: skel.SRC_TEXT.encode()}


class SerialExecutor:
    """ThreadPoolExecutor stand-in: runs the tasks one after the other, in submission order (scheduling is
    C11's subject), and yields results lazily like Executor.map does (exceptions surface on iteration)."""

    def __init__(self, *a, **k):
        pass

    def __enter__(self):
        return self

    def __exit__(self, *a):
        return False

    def map(self, fn, items):
        results = []
        for it in items:
            try:
                results.append((True, fn(it)))
            except Exception as e:  # noqa
                results.append((False, e))

        def gen():
            for ok, v in results:
                if not ok:
                    raise v
                yield v

        return gen()

    def shutdown(self, wait=True):
        pass


def _install_serial():
    """Serial, in-order executor: the scheduling stub of C11 with the identity completion order (it also serves
    submit / as_completed / wait, should the code under test collect results that way)."""
    from harness import c11

    c11.install_executor(bc)
    c11.SchedExecutor.ORDER = [0, 1, 2]


def _mk_context(dry_run: bool, files):
    with NoTracing():
        ctx = CodemodExecutionContext(Path("/d"), dry_run, False, None, None, None, [], [], {}, 1)
    ctx.__dict__["find_and_fix_paths"] = list(files)
    ctx.__dict__["files_to_analyze"] = list(files)
    return ctx


def _run_codemod(kinds, dry_run: bool):
    files = [FakePath(CONTENT[k], rel="f%d.py" % i, vanished=(k == 3)) for i, k in enumerate(kinds)]
    faulty_rels = {"f%d.py" % i for i, k in enumerate(kinds) if k == 4}

    class T:
        @classmethod
        def transform(cls, tree, results, file_context):
            if file_context.file_path.rel in faulty_rels:
                raise Boom()
            file_context.codemod_changes.append(Change(lineNumber=2, description="d"))
            return skel.NEW

    cm = _StubCodemod(metadata=Metadata(name="stub", summary="s", review_guidance=ReviewGuidance.MERGE_WITHOUT_REVIEW, description="d"), transformer=LibcstTransformerPipeline(T))
    ctx = _mk_context(dry_run, files)
    _install_serial()
    exc = None
    try:
        cm.apply(ctx)
    except Exception as e:  # noqa
        exc = type(e).__name__
    return files, ctx, cm, exc


def _pick_kind(k: int) -> int:
    if k % 5 == 0:
        return 0
    if k % 5 == 1:
        return 1
    if k % 5 == 2:
        return 2
    if k % 5 == 3:
        return 3
    return 4


def isolation(k0: int, k1: int, k2: int, n: int, dry_run: bool) -> bool:
    """BaseCodemod.apply over n <= 3 files with a symbolic fault kind per file: every healthy file ends exactly
    as in the fault-free twin run (same bytes, same changeset), every faulty file is untouched and listed as
    failed exactly once, nothing else is, and no exception escapes apply().
    pre: 1 <= n <= NFILES
    post: _
    """
    kinds = [_pick_kind(k0)]
    if n >= 2:
        kinds.append(_pick_kind(k1))
    if n >= 3:
        kinds.append(_pick_kind(k2))
    files, ctx, cm, exc = _run_codemod(kinds, dry_run)
    tfiles, tctx, tcm, texc = _run_codemod([0] * n, dry_run)  # fault-free twin
    if exc is not None or texc is not None:
        return False
    twin_cs = {c.path: (c.diff, len(c.changes)) for c in tctx.get_changesets(tcm.id)}
    got_cs = {c.path: (c.diff, len(c.changes)) for c in ctx.get_changesets(cm.id)}
    ok = True
    failed = sorted(str(p) for p in ctx.get_failures(cm.id))
    exp_failed = sorted("/d/f%d.py" % i for i, k in enumerate(kinds) if k != 0)
    ok = ok and failed == exp_failed
    for i, k in enumerate(kinds):
        rel = "f%d.py" % i
        if k == 0:
            ok = ok and files[i].content == tfiles[i].content and files[i].writes == tfiles[i].writes
            ok = ok and got_cs.get(rel) == twin_cs.get(rel) and rel in got_cs
        else:
            ok = ok and files[i].writes == [] and files[i].content == CONTENT[k] and rel not in got_cs
    return fin(ok)


def _two_codemods(kinds, a_raises_on: int, dry_run: bool):
    """Codemod A (rewrites `a = 1`; its transformer raises on file number `a_raises_on`, -1 = never) followed by
    codemod B (appends a line), through the real apply_codemods."""
    import codemodder.codemodder as cmod

    cmod.logger = NoLog()
    cmod.log_section = lambda *a, **k: None
    _ctxmod.log_list = lambda *a, **k: None
    files = [FakePath(CONTENT[k], rel="f%d.py" % i, vanished=(k == 3)) for i, k in enumerate(kinds)]

    class TA:
        @classmethod
        def transform(cls, tree, results, file_context):
            if file_context.file_path.rel == "f%d.py" % a_raises_on:
                raise Boom()
            file_context.codemod_changes.append(Change(lineNumber=2, description="d"))
            return cst.parse_module(tree.code.replace("a = 1", "a = 2"))

    class TB:
        @classmethod
        def transform(cls, tree, results, file_context):
            file_context.codemod_changes.append(Change(lineNumber=1, description="d"))
            return cst.parse_module(tree.code + "z = 0\n")

    md = lambda n: Metadata(name=n, summary="s", review_guidance=ReviewGuidance.MERGE_WITHOUT_REVIEW, description="d")
    A = _StubCodemod(metadata=md("a"), transformer=LibcstTransformerPipeline(TA))
    B = _StubCodemod(metadata=md("b"), transformer=LibcstTransformerPipeline(TB))
    ctx = _mk_context(dry_run, files)
    _install_serial()
    exc = None
    try:
        cmod.apply_codemods(ctx, [A, B])
    except Exception as e:  # noqa
        exc = type(e).__name__
    return files, ctx, A, B, exc


def isolation_two_codemods(k0: int, k1: int, a_raises_on: int) -> bool:
    """Two codemods over 2 files in one real run (real apply_codemods): a file that codemod A cannot transform
    is still processed by codemod B; a file nobody can read is reported failed by both; healthy files get both
    edits; no exception escapes.
    pre: -1 <= a_raises_on <= 1
    post: _
    """
    kinds = [_pick_file_kind(k0), _pick_file_kind(k1)]
    files, ctx, A, B, exc = _two_codemods(kinds, a_raises_on, False)
    if exc is not None:
        return False
    ok = True
    a_cs = {c.path for c in ctx.get_changesets(A.id)}
    b_cs = {c.path for c in ctx.get_changesets(B.id)}
    a_failed = sorted(str(p) for p in ctx.get_failures(A.id))
    b_failed = sorted(str(p) for p in ctx.get_failures(B.id))
    exp_a_failed, exp_b_failed = [], []
    for i, k in enumerate(kinds):
        rel = "f%d.py" % i
        if k != 0:
            exp_a_failed.append("/d/" + rel)
            exp_b_failed.append("/d/" + rel)
            ok = ok and files[i].writes == [] and rel not in a_cs and rel not in b_cs
        elif i == a_raises_on:
            exp_a_failed.append("/d/" + rel)
            ok = ok and rel not in a_cs and rel in b_cs and files[i].content == CONTENT[0] + b"z = 0\n"
        else:
            ok = ok and rel in a_cs and rel in b_cs and files[i].content == CONTENT[0].replace(b"a = 1", b"a = 2") + b"z = 0\n"
    return fin(ok and a_failed == sorted(exp_a_failed) and b_failed == sorted(exp_b_failed))


def _pick_file_kind(k: int) -> int:
    if k % 4 == 0:
        return 0
    if k % 4 == 1:
        return 1
    if k % 4 == 2:
        return 2
    return 3


def fault_at_jth_node(tier_name):
    """E3 cells: the real invert-boolean-check transformer, instrumented to raise when its visit counter equals a
    SYMBOLIC j, runs natively through the real LibcstTransformerPipeline on a 4-site module.  z3 enumerates the
    cells of j (one per node visited, plus 'never reached'): in every cell either the run completes (file rewritten,
    one changeset, no failure) or the file is untouched, listed failed and its finding unfixed; nothing escapes."""
    from core_codemods.invert_boolean_check import InvertedBooleanCheckTransformer
    from vlib import symint

    SRC = "a, b = 1, 2\nr1 = not a == b\nr2 = not a < b\ndef f():\n    return not a != b\nr3 = not a >= b\n"
    space = symint.Space(["j"])

    def run(w):
        j = space.var("j")

        class Faulty(InvertedBooleanCheckTransformer):
            count = 0

            def on_visit(self, node):
                Faulty.count += 1
                if j == Faulty.count:
                    raise Boom()
                return super().on_visit(node)

        fp = FakePath(SRC.encode())
        results = None
        fc = skel.FileContext(Path("/d"), fp, [], [], results)
        exc = None
        try:
            cs = LibcstTransformerPipeline(Faulty).apply(skel.Ctx(False), fc, results)
        except Exception as e:  # noqa
            return "exception escaped apply(): %s" % type(e).__name__
        reached = 1 <= w["j"] <= Faulty.count or (w["j"] >= 1 and fc.failures)
        if fc.failures:
            if fp.writes or cs is not None or [str(p) for p in fc.failures] != ["/d/f.py"]:
                return "j=%d: failed file was written or reported changed" % w["j"]
            return None
        if cs is None or len(fp.writes) != 1 or b"not" in fp.content:
            return "j=%d: no fault reached, but the file was not completely rewritten" % w["j"]
        return None

    done, runs, queries, fixpoint = symint.explore(space, run, max_rounds=200)
    bad = {k: v for k, v in done.items() if v}
    rec = {"name": "fault:at-the-j-th-visited-node", "engine": "E3-cells+z3", "evaluations": runs, "distinct_nontrivial": len(done), "z3_checks": queries,
           "sample": {"cells": len(done), "fixpoint": fixpoint, "failing_cells": len(bad)}}
    if bad:
        rec.update(verdict="violation", detail=sorted(bad.values())[0], replay="")
    elif not fixpoint:
        rec.update(verdict="inconclusive", detail="cell refinement did not reach a fixpoint")
    else:
        rec["verdict"] = "discharged"
    return [rec]


def fault_at_jth_node_sast(tier_name):
    """E3 cells, SAST-driven: the real DefectDojo avoid-insecure-deserialization transformer (it reports `pickle.loads`
    findings as unfixed itself and fixes `yaml.load`) over a module with THREE findings of one rule, instrumented to
    raise at a SYMBOLIC visit index j.  For every cell of j: either the run completes (the yaml site rewritten, the two
    pickle findings unfixed) or the file is untouched, listed failed, and EVERY one of its three findings is reported
    unfixed - also those the transformer had already reported before the fault."""
    from codemodder.codetf import Finding, Rule
    from codemodder.result import LineInfo, Location
    from core_codemods.defectdojo.results import DefectDojoResult
    from core_codemods.defectdojo.semgrep.avoid_insecure_deserialization import RULE_ID, AvoidInsecureDeserializationTransformer
    from vlib import symint

    SRC = "import pickle\nimport yaml\n\nfirst = pickle.loads(blob)\nsecond = yaml.load(data)\nthird = pickle.loads(other)\n"

    class _Loc(Location):
        pass

    class _Res(DefectDojoResult):
        def __hash__(self):
            return id(self)

    space = symint.Space(["j"])

    def run(w):
        j = space.var("j")

        class Faulty(AvoidInsecureDeserializationTransformer):
            count = 0

            def on_visit(self, node):
                Faulty.count += 1
                if j == Faulty.count:
                    raise Boom()
                return super().on_visit(node)

        fp = FakePath(SRC.encode())
        results = []
        for fid, line in (("21", 4), ("22", 5), ("23", 6)):
            finding = Finding(id=fid, rule=Rule(id=RULE_ID, name="n", url=None))
            results.append(_Res(finding_id=fid, rule_id=RULE_ID, locations=[_Loc(file=Path("f.py"), start=LineInfo(line), end=LineInfo(line))], finding=finding))
        fc = skel.FileContext(Path("/d"), fp, [], [], results)
        try:
            cs = LibcstTransformerPipeline(Faulty).apply(skel.Ctx(False), fc, results)
        except Exception as e:  # noqa
            return "exception escaped apply(): %s" % type(e).__name__
        unfixed = sorted({u.id for u in fc.unfixed_findings})
        if fc.failures:
            if fp.writes or cs is not None or [str(p) for p in fc.failures] != ["/d/f.py"]:
                return "j=%d: failed file was written or reported changed" % w["j"]
            if unfixed != ["21", "22", "23"]:
                return "j=%d: the file failed but only findings %r of ['21', '22', '23'] are reported unfixed" % (w["j"], unfixed)
            return None
        if cs is None or len(fp.writes) != 1 or b"SafeLoader" not in fp.content:
            return "j=%d: no fault reached, but the yaml site was not rewritten" % w["j"]
        if unfixed != ["21", "23"]:
            return "j=%d: fault-free run reports unfixed %r, expected the two pickle findings" % (w["j"], unfixed)
        return None

    done, runs, queries, fixpoint = symint.explore(space, run, max_rounds=200)
    bad = {k: v for k, v in done.items() if v}
    rec = {"name": "fault:at-the-j-th-visited-node:sast", "engine": "E3-cells+z3", "evaluations": runs, "distinct_nontrivial": len(done), "z3_checks": queries,
           "sample": {"cells": len(done), "fixpoint": fixpoint, "failing_cells": len(bad)}}
    if bad:
        rec.update(verdict="violation", detail=sorted(bad.values())[0], replay="")
    elif not fixpoint:
        rec.update(verdict="inconclusive", detail="cell refinement did not reach a fixpoint")
    else:
        rec["verdict"] = "discharged"
    return [rec]


def fault_unrenderable_tree(dry_run: bool, one_line_first: bool, second_class: bool) -> bool:
    """A transformer that BUILDS A TREE LIBCST CANNOT RENDER (the real django-model-without-dunder-str appends a method
    to the one-line body of `class A(models.Model): pass`): no exception escapes LibcstTransformerPipeline.apply, the
    file is byte-for-byte untouched, it is listed as failed exactly once and no ChangeSet is returned - or, should the
    codemod handle the shape, the file is rewritten into valid Python and reported as changed.
    post: _
    """
    from codemodder.registry import load_registered_codemods

    global _DJANGO
    if _DJANGO is None:
        with NoTracing():
            _DJANGO = {c.id: c for c in load_registered_codemods().codemods}["pixee:python/django-model-without-dunder-str"]
    one = "class A(models.Model): pass\n"
    multi = "class B(models.Model):\n    x = 1\n"
    src = "from django.db import models\n" + (one + (multi if second_class else "") if one_line_first else (multi if second_class else "") + one)
    fp = FakePath(src.encode())
    fc = skel.FileContext(Path("/d"), fp, [], [], None)
    with NoTracing():
        try:
            cs = _DJANGO.transformer.apply(skel.Ctx(dry_run), fc, None)
        except Exception:  # noqa
            return False
    if fc.failures:
        return fin(cs is None and fp.writes == [] and fp.content == src.encode() and [str(p) for p in fc.failures] == ["/d/f.py"])
    if cs is None:
        return fin(fp.writes == [])
    try:
        compile(fp.content.decode(), "m.py", "exec")
    except SyntaxError:
        return False
    return fin(dry_run or len(fp.writes) == 1)


_DJANGO = None


def planted_swallowed_failure(kind: int, nf: int) -> bool:
    """Self-test: a pipeline that fails without recording the failure must be refuted.
    pre: 1 <= kind < 4 and 0 <= nf <= 1
    post: _
    """
    from codemodder.file_context import FileContext

    orig = FileContext.add_failure
    FileContext.add_failure = lambda self, filename, reason: None
    try:
        fp, fc, o = skel.run_libcst(kind, False, (False, True, True), (False, False, False), nf)
    finally:
        FileContext.add_failure = orig
    return o.failures == ["/d/f.py"]


def warmup():
    skel.warm()
    _run_codemod([0, 1, 2], False)
    _run_codemod([3, 4], True)
    isolation(0, 4, 1, 3, False)
    isolation_two_codemods(0, 1, 0)
    isolation_two_codemods(0, 0, -1)


SPEC = {
    "property": "C10",
    "level": "model_checking",
    "files": [
        "src/codemodder/codemods/libcst_transformer.py",
        "src/codemodder/codemods/regex_transformer.py",
        "src/codemodder/codemods/xml_transformer.py",
        "src/codemodder/codemods/base_codemod.py",
        "src/codemodder/file_context.py",
        "src/codemodder/context.py",
    ],
    "functions": [
        "LibcstTransformerPipeline.apply",
        "RegexTransformerPipeline.apply, SastRegexTransformerPipeline._apply",
        "XMLTransformerPipeline.apply",
        "FileContext.add_failure / add_unfixed_findings / get_all_findings",
        "BaseCodemod.apply / _apply / _process_file, FindAndFixCodemod.get_files_to_analyze",
        "codemodder.codemodder.apply_codemods (two codemods in sequence)",
        "InvertedBooleanCheckTransformer run through LibcstTransformerPipeline with a fault at a symbolic visit index (E3 cells)",
        "AvoidInsecureDeserializationTransformer (DefectDojo, reports some findings unfixed itself) with three findings of one rule and a fault at a symbolic visit index (E3 cells)",
        "CodemodExecutionContext.process_results / add_changesets / add_failures / add_unfixed_findings / get_*",
    ],
    "bounds": {
        "quick": "per pipeline: fault kind x dry-run x raises/changes/alters of 2 transformers x <= 2 findings; whole codemod: n <= 2 files (thorough: 3), 5 fault kinds per file (none, invalid UTF-8, syntax error, vanished, transformer raises), dry-run",
        "thorough": "whole codemod over n <= 3 files; otherwise the same space (exhausted in quick)",
    },
    "assumptions": [
        "fault *decisions* are symbolic; the bytes are one concrete representative per kind (real decoders/parsers are native)",
        "the executor runs tasks in submission order and surfaces task exceptions on iteration like Executor.map (scheduling is C11's subject)",
        "XML: expat replaced by a SAX event driver, so 'vanished' means the file disappears between parsing and the pipeline's second read",
    ],
    "stubs": ["file (FakePath)", "ThreadPoolExecutor (SerialExecutor)", "transformers", "logger", "expat", "TemporaryFile", "CodemodExecutionContext constructed for real with no registry/providers/repo manager"],
    "outside": ["NUL bytes and other decoder details", "process exit status (C20)", "faults inside transformers other than invert-boolean-check"],
    "drivers": [fault_at_jth_node, fault_at_jth_node_sast],
    "xh": [
        Xh("fault_libcst", 150, 300),
        Xh("fault_regex", 120, 300),
        Xh("fault_unrenderable_tree", 100, 200),
        Xh("fault_xml", 120, 300),
        Xh("isolation", 240, 900),
        Xh("isolation_two_codemods", 240, 600),
        Xh("planted_swallowed_failure", 60, 120, twin=False, expect="refuted"),
    ],
}
