"""Detector-driven REFACTORING family (C08): the semgrep-detected refactoring codemods (bad-lock-with-statement,
lazy-logging, fix-hasattr-call) run through their complete real transformer chains with results placed on the
expressions their rules focus on; both programs are then EXECUTED and their observations compared (printed output,
captured log records, raised exception type).  semgrep is absent: which expressions it would report is not decided
here (assumption recorded in the evidence)."""
import contextlib
import io
import logging
from pathlib import Path

import libcst as cst
from crosshair.tracers import NoTracing
from libcst.metadata import MetadataWrapper, PositionProvider

from codemodder.codetf import Finding, Rule
from codemodder.file_context import FileContext
from codemodder.result import LineInfo, Location, Result

_REG = None


def _reg():
    global _REG
    if _REG is None:
        from codemodder.registry import load_registered_codemods

        _REG = {c.id: c for c in load_registered_codemods().codemods}
    return _REG


class _L(Location):
    pass


class _R(Result):
    def __hash__(self):
        return id(self)


def sel(pool, i):
    k = 0
    while k < len(pool) - 1:
        if i % len(pool) == k:
            return pool[k]
        k += 1
    return pool[len(pool) - 1]


def run(name, src, want):
    """Complete transformer chain of pixee:python/<name> with one result per node for which want(node, code) holds."""
    cm = _reg()["pixee:python/" + name]
    mod = cst.parse_module(src)
    w = MetadataWrapper(mod)
    pos = w.resolve(PositionProvider)
    res = []
    for node, p in pos.items():
        if want(node, w.module.code_for_node(node) if isinstance(node, (cst.BaseExpression, cst.WithItem)) else ""):
            res.append(_R(rule_id="r", locations=[_L(file=Path("m.py"), start=LineInfo(p.start.line, p.start.column + 1), end=LineInfo(p.end.line, p.end.column + 1))], finding=Finding(id="F%d" % len(res), rule=Rule(id="r", name="n", url=None))))
    fc = FileContext(Path("/d"), Path("/d/m.py"), [], [], res)
    tree = cst.parse_module(src)
    for t in cm.transformer.transformers:
        tree = t.transform(tree, res, fc)
    return tree.code, len(res)


class _Capture(logging.Handler):
    def __init__(self):
        super().__init__(level=0)
        self.records = []

    def emit(self, record):
        try:
            self.records.append((record.levelname, record.getMessage()))
        except Exception as e:  # noqa
            self.records.append((record.levelname, "FORMAT-ERROR:" + type(e).__name__))


def observe(code):
    """(status, stdout, log records) of one execution; logging is captured on the root logger."""
    out = io.StringIO()
    root = logging.getLogger()
    saved_handlers, saved_level = list(root.handlers), root.level
    cap = _Capture()
    root.handlers = [cap]
    root.setLevel(0)
    saved_raise = logging.raiseExceptions
    logging.raiseExceptions = False
    try:
        with contextlib.redirect_stdout(out), contextlib.redirect_stderr(io.StringIO()):
            exec(compile(code, "m.py", "exec"), {"__name__": "__main__"})
        st = "ok"
    except BaseException as e:  # noqa
        st = type(e).__name__
    finally:
        root.handlers, logging.raiseExceptions = saved_handlers, saved_raise
        root.setLevel(saved_level)
    return st, out.getvalue(), cap.records


# ------------------------------------------------------------------ bad-lock-with-statement
LOCKS = ["Lock", "RLock", "Condition", "Semaphore", "BoundedSemaphore"]


def build_lock(kind: int, style: int, scope: int, collide: int, two: bool):
    """style: 0 `import threading`, 1 `from threading import K`, 2 `import threading as th`;
    scope: 0 module, 1 function body, 2 inside `if True:`;
    collide: 0 no other use of the generated variable name, 1 a module variable of that name is read afterwards,
    2 the name is a parameter of the enclosing function (scope 1) / a loop variable."""
    k = sel(LOCKS, kind)
    st = style % 3
    imp = ["import threading", "from threading import %s" % k, "import threading as th"][st]
    callee = ["threading.%s" % k, k, "th.%s" % k][st]
    var = k.lower()
    body = ["with %s():" % callee, "    x = x + 1"]
    if two:
        body += ["with %s():" % callee, "    x = x + 10"]
    head = [imp, ""]
    if collide % 3 == 1:
        head.append("%s = 'mine'" % var)
    else:
        head.append("other = 'mine'")
    shown = var if collide % 3 == 1 else "other"
    if scope % 3 == 1:
        param = var if collide % 3 == 2 else "unused"
        lines = head + ["def fn(%s):" % param, "    x = 0"] + ["    " + l for l in body] + ["    return x, %s" % param, "print(fn('arg'), %s)" % shown]
    elif scope % 3 == 2:
        lines = head + ["x = 0", "if True:"] + ["    " + l for l in body] + ["print(x, %s)" % shown]
    else:
        loop = ["for %s in ('it',):" % var, "    pass"] if collide % 3 == 2 else []
        lines = head + loop + ["x = 0"] + body + ["print(x, %s%s)" % (shown, (", " + var) if collide % 3 == 2 else "")]
    return "\n".join(lines) + "\n", callee + "()"


def check_lock(kind, style, scope, collide, two):
    src, marker = build_lock(kind, style, scope, collide, two)
    with NoTracing():
        out, n = run("bad-lock-with-statement", src, lambda node, code: isinstance(node, cst.WithItem) and code == marker)
        if out == src:
            return "the reported with statement was not rewritten:\n" + src
        a, b = observe(src), observe(out)
        if a != b:
            return "bad-lock-with-statement changed behaviour: %r -> %r\n--- before\n%s--- after\n%s" % (a, b, src, out)
    return None


# ------------------------------------------------------------------ fix-hasattr-call
OBJECTS = ["len", "3", "None", "type('K', (), {'__call__': lambda s: 1})()", "int", "'s'", "(lambda: 0)"]
HAS_CTX = ["r = hasattr(o, %s)", "r = not hasattr(o, %s)", "r = hasattr(o, %s) and flag", "r = [hasattr(v, %s) for v in (o, len)]", "r = 1 if hasattr(o, %s) else 2", "r = (hasattr(o, %s), hasattr(o, 'real'))"]


def build_hasattr(obj: int, ctx: int, quote: int, scope: int):
    lit = "'__call__'" if quote % 2 == 0 else '"__call__"'
    stmt = sel(HAS_CTX, ctx) % lit
    head = ["o = %s" % sel(OBJECTS, obj), "flag = True"]
    if scope % 2 == 1:
        lines = head + ["def fn(o):", "    " + stmt, "    return r", "print(fn(o))"]
    else:
        lines = head + [stmt, "print(r)"]
    return "\n".join(lines) + "\n", lit


def check_hasattr(obj, ctx, quote, scope):
    src, lit = build_hasattr(obj, ctx, quote, scope)
    with NoTracing():
        out, n = run("fix-hasattr-call", src, lambda node, code: isinstance(node, cst.Call) and code.startswith("hasattr(") and code.endswith(lit + ")"))
        if out == src:
            return "the reported hasattr call was not rewritten:\n" + src
        if "hasattr(o, 'real')" in src and "hasattr(o, 'real')" not in out:
            return "an unreported hasattr call changed:\n" + out
        a, b = observe(src), observe(out)
        if a != b:
            return "fix-hasattr-call changed behaviour: %r -> %r\n--- before\n%s--- after\n%s" % (a, b, src, out)
    return None


# ------------------------------------------------------------------ lazy-logging
LOG_MSGS = [
    "'user %s' % x",
    "'user %s has %d' % (x, n)",
    "'user ' + x",
    "'user ' + x + ' done'",
    "x + ' left'",
    "'rate 100%% for %s' % x",
    "'pct ' + x + ' 100%'",
    "'a' 'b %s' % x",
    "('user %s' % x)",
]
LOG_CALLS = ["logging.info(%s)", "logging.error(%s)", "logging.log(logging.WARNING, %s)", "log.warning(%s)", "logging.getLogger('a.b').info(%s)", "logging.info(%s, exc_info=False)"]
XVALS = ["'bob'", "'50%'", "'%s'", "''"]


def build_log(msg: int, call: int, xval: int, scope: int):
    m = sel(LOG_MSGS, msg)
    stmt = sel(LOG_CALLS, call) % m
    head = ["import logging", "log = logging.getLogger('app')", "x = %s" % sel(XVALS, xval), "n = 7"]
    if scope % 2 == 1:
        lines = head + ["def fn(x, n):", "    " + stmt, "fn(x, n)"]
    else:
        lines = head + [stmt]
    return "\n".join(lines) + "\n", stmt


def check_log(msg, call, xval, scope):
    src, stmt = build_log(msg, call, xval, scope)
    with NoTracing():
        out, n = run("lazy-logging", src, lambda node, code: isinstance(node, cst.Call) and code == stmt)
        if n != 1:
            return "harness: %d results for\n%s" % (n, src)
        if out == src:
            return None  # the codemod declined
        try:
            compile(out, "m.py", "exec")
        except SyntaxError as e:
            return "lazy-logging produced invalid Python (%s):\n%s" % (e, out)
        a, b = observe(src), observe(out)
        if a != b:
            return "lazy-logging changed the logged output: %r -> %r\n--- before\n%s--- after\n%s" % (a, b, src, out)
    return None
