"""C19 — regex and XML pipelines edit only their targets and preserve everything else.

Regex: real `_apply` of both pipelines (real `re.sub` for a simple pattern) over symbolic lines and symbolic
finding locations.  XML: the real handler classes are driven with symbolic SAX / lexical events into a
pure-Python text sink (expat's event generation is trusted); every non-target event must decode back to itself.
"""
import io
from pathlib import Path
from typing import List, Tuple
from xml.sax.saxutils import unescape
from xml.sax.xmlreader import AttributesImpl, Locator

import codemodder.codemods.regex_transformer as rt
import codemodder.codemods.xml_transformer as xt
from codemodder.codemods.regex_transformer import RegexTransformerPipeline, SastRegexTransformerPipeline
from codemodder.codemods.xml_transformer import ElementAttributeXMLTransformer, NewElement, NewElementXMLTransformer, XMLTransformer
from codemodder.codetf import Change, Finding, Rule
from codemodder.file_context import FileContext
from codemodder.result import LineInfo, Location, Result
from vlib.core import NoLog, fin, tier
from vlib.main import Xh

rt.logger = NoLog()
xt.logger = NoLog()
NLINES = tier(2, 3)
NLINES_SAST = 2  # the SAST obligation also forks on findings per line: 3 lines x 5 pool entries x 2 patterns did not finish in 900 s
NSPANS = tier(2, 2)
LLEN = tier(2, 3)
CLEN = tier(3, 4)
ALEN = tier(2, 3)
NL = "\n"


class L(Location):
    pass


class R(Result):
    def __hash__(self):
        return id(self)


def _results(spans: List[Tuple[int, int]]):
    out = []
    i = 0
    for s, e in spans:
        out.append(R(rule_id="r", locations=[L(file=Path("f"), start=LineInfo(s, 1), end=LineInfo(e, 2))], finding=Finding(id="F%d" % i, rule=Rule(id="r", name="r", url=None))))
        i += 1
    return out


def _fc(results):
    return FileContext(Path("/d"), Path("/d/f"), [], [], results)


def _lacks(s: str, ch: str) -> bool:
    """`ch not in s`, written as a loop (CrossHair 0.0.110 raises an internal error on `in` for some symbolic strings)."""
    for c in s:
        if c == ch:
            return False
    return True


def _has_a(l: str) -> bool:
    for ch in l:
        if ch == "a":
            return True
    return False


def _sub(l: str) -> str:
    """Reference for re.sub('a', 'bb', l), written character by character."""
    out = ""
    for ch in l:
        out += "bb" if ch == "a" else ch
    return out


POOL = ["", "a", "b\n", "xaya\n", "bbc\n"]
PATTERNS = [("a", "bb"), ("a|bb", "bb")]  # the second one is a normalising pattern: on 'bb' it matches and reproduces the text



def _lines(sels: List[int]) -> List[str]:
    """Lines chosen from a pool by symbolic selectors (explicit forks; the chosen line is concrete, so the real
    `re.sub` runs natively: CrossHair's regex model mis-handles multi-match substitution on symbolic strings)."""
    out = []
    for i in sels:
        if i % 5 == 0:
            out.append(POOL[0])
        elif i % 5 == 1:
            out.append(POOL[1])
        elif i % 5 == 2:
            out.append(POOL[2])
        elif i % 5 == 3:
            out.append(POOL[3])
        else:
            out.append(POOL[4])
    return out


def regex_plain(sels: List[int], spans: List[Tuple[int, int]], norm: bool) -> bool:
    """RegexTransformerPipeline._apply: lines the substitution leaves as they are (no match, or - with the
    normalising pattern - a match that reproduces the text) are byte-identical and get NO change entry, every edited
    line gets one change numbered 1-based, carrying exactly the findings whose range covers that line.
    pre: len(sels) <= NLINES and len(spans) <= NSPANS and all(1 <= s <= e <= 4 for s, e in spans)
    post: _
    """
    lines = _lines(sels)
    results = _results(spans)
    pat, rep = PATTERNS[1] if norm else PATTERNS[0]
    pipe = RegexTransformerPipeline(pattern=pat, replacement=rep, change_description="d")
    changes, updated = pipe._apply(list(lines), _fc(results), results)
    if len(updated) != len(lines):
        return False
    exp_changes = []
    for i, l in enumerate(lines):
        if _has_a(l):
            if updated[i] != _sub(l):
                return False
            ids = ["F%d" % k for k, (s, e) in enumerate(spans) if s <= i + 1 <= e]
            exp_changes.append((i + 1, ids))
        elif updated[i] != l:
            return False
    got = [(c.lineNumber, [f.id for f in c.findings]) for c in changes]
    return fin(got == exp_changes)


def regex_sast(sels: List[int], spans: List[Tuple[int, int]], norm: bool) -> bool:
    """SastRegexTransformerPipeline._apply: only lines that carry a finding are edited; each edit has one change
    with the findings of that line; a finding line the pattern cannot fix is reported unfixed; all other lines
    are byte-identical.
    pre: len(sels) <= NLINES_SAST and 1 <= len(spans) <= NSPANS and all(1 <= s <= e <= 4 for s, e in spans)
    post: _
    """
    lines = _lines(sels)
    results = _results(spans)
    fc = _fc(results)
    pat, rep = PATTERNS[1] if norm else PATTERNS[0]
    pipe = SastRegexTransformerPipeline(pattern=pat, replacement=rep, change_description="d")
    changes, updated = pipe._apply(list(lines), fc, results)
    if len(updated) != len(lines):
        return False
    starts = [s for s, e in spans]
    exp_changes, exp_unfixed = [], []
    for i, l in enumerate(lines):
        if (i + 1) in starts:
            ids = ["F%d" % k for k, (s, e) in enumerate(spans) if s <= i + 1 <= e]
            if _has_a(l):
                if updated[i] != _sub(l):
                    return False
                exp_changes.append((i + 1, ids))
            else:
                if updated[i] != l:
                    return False
                exp_unfixed.extend((fid, i + 1) for fid in ids)
        elif updated[i] != l:
            return False
    got = [(c.lineNumber, [f.id for f in c.findings]) for c in changes]
    got_unfixed = [(u.id, u.lineNumber) for u in fc.unfixed_findings]
    return fin(got == exp_changes and got_unfixed == exp_unfixed)


# ------------------------------------------------------------------ XML
class PyChange:
    """Pure-Python stand-in for codetf.Change (a pydantic-core model rejects symbolic ints at its Rust boundary);
    keeps the model's two validators."""

    def __init__(self, lineNumber, description, findings=None, **kw):
        if lineNumber < 1:
            raise ValueError("lineNumber must be greater than 0")
        if description is not None and not description:
            raise ValueError("description must not be empty")
        self.lineNumber, self.description, self.findings = lineNumber, description, findings


class Sink(io.TextIOBase):
    def __init__(self):
        self.parts = []

    def writable(self):
        return True

    def write(self, s):
        self.parts.append(s)
        return len(s)

    def flush(self):
        pass

    def text(self):
        return "".join(self.parts)


def _handler(klass=XMLTransformer, results=None, **kw):
    xt.Change = PyChange
    sink = Sink()
    fc = _fc(results)
    h = klass(sink, fc, results=results, **kw)
    loc = Locator()
    pos = {"l": 1, "c": 0}
    loc.getLineNumber = lambda: pos["l"]
    loc.getColumnNumber = lambda: pos["c"]
    h.setDocumentLocator(loc)
    return h, sink, pos


XCHARS = "a&<>]\"' \n"


def xml_characters(c: str) -> bool:
    """characters(): ordinary character data is written so that an XML reader decodes it back to `c`.
    pre: len(c) <= CLEN
    post: _
    """
    h, sink, _ = _handler()
    h.startElement("e", AttributesImpl({}))
    before = len(sink.text())
    h.characters(c)
    out = sink.text()[before:]
    return fin(_lacks(out, "<") and unescape(out) == c)


def xml_cdata(c: str) -> bool:
    """startCDATA / characters / endCDATA: the content of a CDATA section is written verbatim inside the section.
    pre: len(c) <= CLEN and "]]>" not in c
    post: _
    """
    h, sink, _ = _handler()
    h.startElement("e", AttributesImpl({}))
    before = len(sink.text())
    h.startCDATA()
    h.characters(c)
    h.endCDATA()
    out = sink.text()[before:]
    return fin(out == "<![CDATA[" + c + "]]>")


def xml_comment_pi(c: str, target_ok: bool) -> bool:
    """comment() and processingInstruction(): content is written verbatim.
    pre: len(c) <= CLEN and "--" not in c and "?>" not in c
    post: _
    """
    h, sink, _ = _handler()
    h.startElement("e", AttributesImpl({}))
    before = len(sink.text())
    h.comment(c)
    mid = len(sink.text())
    h.processingInstruction("pi", c)
    out = sink.text()
    return fin(out[before:mid].strip(NL) == "<!--" + c + "-->" and out[mid:] == "<?pi " + c + "?>")


ACH = ["a", "&", "<", ">", '"', "'", "\n", "\r", "\t"]


def _ach(i: int) -> str:
    k = 0
    while k < 8:
        if i % 9 == k:
            return ACH[k]
        k += 1
    return ACH[8]


def xml_attr_value(n: int, c0: int, c1: int, c2: int) -> bool:
    """startElement(): an attribute value (<= ALEN characters over the classes escape()/quoteattr() distinguish:
    ordinary, & < > double and single quote, LF, CR, TAB) is written so that an XML reader decodes it back.
    pre: 0 <= n <= ALEN
    post: _
    """
    v = ""
    if n >= 1:
        v += _ach(c0)
    if n >= 2:
        v += _ach(c1)
    if n >= 3:
        v += _ach(c2)
    h, sink, _ = _handler()
    h.startElement("e", AttributesImpl({"k": v}))
    out = sink.text()
    ents = {"&quot;": '"', "&apos;": "'", "&#10;": "\n", "&#13;": "\r", "&#9;": "\t"}
    if out.startswith('<e k="') and out.endswith('">'):
        body = out[len('<e k="') : -2]
        ok = '"' not in body
    elif out.startswith("<e k='") and out.endswith("'>"):
        body = out[len("<e k='") : -2]
        ok = "'" not in body
    else:
        return False
    # attribute-value normalisation turns raw LF/CR/TAB into spaces: they must be written as character references
    ok = ok and "\n" not in body and "\r" not in body and "\t" not in body and "<" not in body
    return fin(ok and unescape(body, ents) == v)


def xml_match_result(line: int, col: int, spans: List[Tuple[int, int]], line_only: bool, results_none: bool) -> bool:
    """match_result(): an event matches iff a finding starts on its line at its (1-based) column; with
    line-only matching the line alone decides; without results every event matches.
    pre: len(spans) <= 2
    post: _
    """
    results = None if results_none else _results([(s, s) for s, _ in spans])
    if results:
        for r, (_, c) in zip(results, spans):
            r.locations[0].start.column = c
    h, _, _ = _handler(results=results)
    h.line_only_matching = line_only
    got = h.match_result(line, col)
    if results_none:
        return fin(got is True)
    exp = any(s == line and (line_only or c - 1 == col) for s, c in spans)
    return fin(got == exp)


def xml_element_attrs(is_target: bool, has_attr: bool, line: int, col: int, fline: int, fcol: int, results_none: bool) -> bool:
    """ElementAttributeXMLTransformer.startElement: a target element that matches a finding gets exactly the mapped
    attributes (others kept) and one change at the locator's line with that line's findings; any other element
    is written unchanged and produces no change.
    pre: line >= 1 and fline >= 1
    post: _
    """
    results = None if results_none else _results([(fline, fline)])
    if results:
        results[0].locations[0].start.column = fcol
    h, sink, pos = _handler(ElementAttributeXMLTransformer, results=results, name_attributes_map={"t": {"flag": "yes"}})
    pos["l"], pos["c"] = line, col
    name = "t" if is_target else "u"
    attrs = {"keep": "1"}
    if has_attr:
        attrs["flag"] = "no"
    h.startElement(name, AttributesImpl(dict(attrs)))
    out = sink.text()
    matched = results_none or (fline == line and fcol - 1 == col)
    if is_target and matched:
        exp_attrs = dict(attrs)
        exp_attrs["flag"] = "yes"
        exp_changes = [(line, [] if results_none else ["F0"])]
    else:
        exp_attrs = attrs
        exp_changes = []
    exp_out = "<" + name + "".join(' %s="%s"' % kv for kv in exp_attrs.items()) + ">"
    got_changes = [(c.lineNumber, [f.id for f in (c.findings or [])]) for c in h.changes]
    return fin(out == exp_out and got_changes == exp_changes)


def xml_new_element(parent_matches: bool, line: int, content: str) -> bool:
    """NewElementXMLTransformer.endElement: the new element is emitted (escaped) right before the end tag of its
    parent, once, with one change at the locator's line; other elements close unchanged.
    pre: line >= 1 and len(content) <= 2
    post: _
    """
    h, sink, pos = _handler(NewElementXMLTransformer, new_elements=[NewElement(name="n", parent_name="p", content=content)])
    pos["l"] = line
    name = "p" if parent_matches else "q"
    h.startElement(name, AttributesImpl({}))
    before = len(sink.text())
    h.endElement(name)
    out = sink.text()[before:]
    if parent_matches:
        if len(out) < 11 or out[:3] != "<n>" or out[len(out) - 8 :] != "</n></p>":
            return False
        mid = out[3 : len(out) - 8]
        return fin(unescape(mid) == content and _lacks(mid, "<") and [(c.lineNumber) for c in h.changes] == [line])
    return fin(out == "</q>" and h.changes == [])


SEQ_CONTENT = ["", "a", "<", "&]", "x y"]


def xml_event_sequence(k0: int, k1: int, k2: int, csel: int) -> bool:
    """A sequence of three lexical / content events of symbolic kinds (character data, CDATA section, comment,
    empty element): what the handler writes is the concatenation of what each event writes on its own - no state
    leaks from one event into the next (e.g. a CDATA section must not switch escaping off for later text).  Content
    is chosen from a pool of 5 strings (empty, plain, markup, ampersand + bracket, with a space).
    post: _
    """
    i = 0
    while i < 4:
        if csel % 5 == i:
            break
        i += 1
    c = SEQ_CONTENT[i]
    from xml.sax.saxutils import escape

    def emit(h, kind):
        if kind % 4 == 0:
            h.characters(c)
        elif kind % 4 == 1:
            h.startCDATA()
            h.characters(c)
            h.endCDATA()
        elif kind % 4 == 2:
            h.comment("k")
        else:
            h.startElement("x", AttributesImpl({}))
            h.endElement("x")

    def alone(kind):
        h, sink, _ = _handler()
        h.startElement("e", AttributesImpl({}))
        before = len(sink.text())
        emit(h, kind)
        return sink.text()[before:]

    h, sink, _ = _handler()
    h.startElement("e", AttributesImpl({}))
    before = len(sink.text())
    for kind in (k0, k1, k2):
        emit(h, kind)
    from crosshair.core import deep_realize
    from crosshair.tracers import NoTracing

    got, exp = deep_realize(sink.text()[before:]), deep_realize(alone(k0) + alone(k1) + alone(k2))
    with NoTracing():
        same = got == exp
    return fin(same)


class _ReplayParser:
    """Stands for the expat parser inside XMLTransformerPipeline.apply: replays a given event list on the handler
    the PIPELINE constructed (so the pipeline's own constructor arguments are exercised)."""

    events = []

    def setContentHandler(self, h):
        self.h = h

    def setProperty(self, name, value):
        pass

    def parse(self, source):
        h = self.h
        loc = Locator()
        loc.getLineNumber = lambda: 1
        loc.getColumnNumber = lambda: 0
        h.setDocumentLocator(loc)
        h.startDocument()
        for ev in _ReplayParser.events:
            if ev[0] == "start":
                h.startElement(ev[1], AttributesImpl(dict(ev[2])))
            elif ev[0] == "end":
                h.endElement(ev[1])
            elif ev[0] == "chars":
                h.characters(ev[1])
            elif ev[0] == "comment":
                h.comment(ev[1])
            elif ev[0] == "cdata":
                h.startCDATA()
                h.characters(ev[1])
                h.endCDATA()
        h.endDocument()


def _reparse(text: str):
    """Real expat on the written document: the event stream a reader sees (text whitespace-trimmed, CDATA content
    folded into character data)."""
    import xml.sax
    from xml.sax.handler import ContentHandler, property_lexical_handler

    out = []

    class H(ContentHandler):
        def startElement(self, name, attrs):
            out.append(("start", name, sorted(attrs.items())))

        def endElement(self, name):
            out.append(("end", name))

        def characters(self, content):
            if out and out[-1][0] == "text":
                out[-1] = ("text", out[-1][1] + content)
            else:
                out.append(("text", content))

        def comment(self, content):
            out.append(("comment", content))

        def startCDATA(self):
            pass

        def endCDATA(self):
            pass

        def startDTD(self, *a):
            pass

        def endDTD(self):
            pass

    h = H()
    p = xml.sax.make_parser()
    p.setContentHandler(h)
    p.setProperty(property_lexical_handler, h)
    import io as _io

    p.parse(_io.BytesIO(text.encode("utf-8")))
    return [e if e[0] != "text" else ("text", e[1].strip()) for e in out if not (e[0] == "text" and not e[1].strip())]


def xml_pipeline_roundtrip(k0: int, k1: int, empty_leaf: bool, dry_run: bool) -> bool:
    """XMLTransformerPipeline.apply (expat replaced by an event replayer, everything else real, including how the
    pipeline constructs the transformer): a document `<root><t flag="no">` + two children of symbolic kinds
    (text, comment, CDATA, element - the first child directly after the start tag) is rewritten so that a real
    XML parser reads back exactly the same elements, text, comments and CDATA content, with only the target
    attribute changed.
    post: _
    """
    import harness.skel as skel
    from codemodder.codemods.xml_transformer import XMLTransformerPipeline
    from crosshair.core import deep_realize
    from crosshair.tracers import NoTracing
    from vlib.stubs import Ctx, FakePath

    def child(kind, tag):
        if kind % 4 == 0:
            return [("chars", "t<&")]
        if kind % 4 == 1:
            return [("comment", " c ")]
        if kind % 4 == 2:
            return [("cdata", "a<b & c")]
        return [("start", tag, {}), ("end", tag)]

    events = [("start", "root", {}), ("start", "t", {"flag": "no"})] + child(k0, "u") + child(k1, "v") + [("end", "t")]
    if empty_leaf:
        events += [("start", "leaf", {}), ("end", "leaf")]
    events += [("end", "root")]
    _ReplayParser.events = events
    xt.make_parser = _ReplayParser
    xt.TemporaryFile = skel.StrTemp
    fp = FakePath(b"<root/>", rel="c.xml")
    fc = FileContext(Path("/d"), fp, [], [], None)

    class T(ElementAttributeXMLTransformer):
        change_description = "d"

        def __init__(self, out, file_context, results=None, **kw):
            super().__init__(out, file_context, name_attributes_map={"t": {"flag": "yes"}}, results=results, **kw)

    import codemodder.codemods.xml_transformer as _xt

    _xt.Change = skel.Change
    cs = XMLTransformerPipeline(T).apply(Ctx(dry_run), fc, None)
    if cs is None:
        return False
    if dry_run:
        return fin(fp.writes == [])
    written = deep_realize(fp.content.decode("utf-8"))
    with NoTracing():
        try:
            got = _reparse(written)
        except Exception:
            return False
        exp = []
        for ev in events:
            if ev[0] == "start":
                attrs = dict(ev[2])
                if ev[1] == "t":
                    attrs["flag"] = "yes"
                exp.append(("start", ev[1], sorted(attrs.items())))
            elif ev[0] == "end":
                exp.append(("end", ev[1]))
            elif ev[0] in ("chars", "cdata"):
                if exp and exp[-1][0] == "text":
                    exp[-1] = ("text", (exp[-1][1] + ev[1]).strip())
                else:
                    exp.append(("text", ev[1].strip()))
            else:
                exp.append(("comment", ev[1]))
        same = got == exp
    return fin(same)


def planted_cdata_escape(c: str) -> bool:
    """Self-test: escaping inside CDATA must be refuted by the CDATA obligation's oracle.
    pre: len(c) <= 2
    post: _
    """
    from xml.sax.saxutils import escape

    return "<![CDATA[" + escape(c) + "]]>" == "<![CDATA[" + c + "]]>"


def warmup():
    Change(lineNumber=1, description="d", findings=[Finding(id="x", rule=Rule(id="r", name="r", url=None))])
    regex_plain([1, 2, 3], [(1, 1)], False)
    regex_plain([4, 2], [(1, 1)], True)
    regex_sast([1, 2, 3], [(1, 2)], False)
    regex_sast([4, 1], [(1, 2)], True)
    xml_characters("a<&")
    try:
        xml_cdata("a<")
    except Exception:
        pass
    xml_comment_pi("a", True)
    xml_attr_value(2, 0, 4, 0)
    xml_match_result(1, 0, [(1, 1)], False, False)
    xml_element_attrs(True, True, 2, 3, 2, 4, False)
    xml_new_element(True, 3, "x<")
    xml_event_sequence(1, 0, 2, 2)
    xml_pipeline_roundtrip(1, 2, True, False)


SPEC = {
    "property": "C19",
    "level": "model_checking",
    "files": ["src/codemodder/codemods/regex_transformer.py", "src/codemodder/codemods/xml_transformer.py", "src/codemodder/file_context.py"],
    "functions": [
        "RegexTransformerPipeline._apply/_apply_regex",
        "SastRegexTransformerPipeline._apply/line_matches_result/report_unfixed",
        "FileContext.get_findings_for_location/add_unfixed_findings",
        "XMLTransformer.characters/comment/startCDATA/endCDATA/startElement/endElement/match_result/add_change/event_match_result/setDocumentLocator",
        "ElementAttributeXMLTransformer.startElement",
        "NewElementXMLTransformer.endElement/add_new_element",
        "XMLTransformerPipeline.apply (transformer construction, writing) with a replayed event stream, re-read by the real expat parser",
    ],
    "bounds": {
        "quick": "<= 2 (thorough 3) lines chosen from a pool of 5 (empty, one match, no match, two matches, a match the replacement reproduces), plain or normalising pattern, <= 2 findings with symbolic line ranges in 1..4; XML character data / CDATA / comment / PI content of <= 3 symbolic characters (any Unicode); attribute values of <= 2 characters over the 9 classes escape()/quoteattr() distinguish, locator and finding positions unbounded ints",
        "thorough": "3 lines (regex_plain; regex_sast stays at 2), XML strings of <= 4 characters",
    },
    "assumptions": [
        "expat generates the SAX/lexical events of the document faithfully (trusted); handlers are driven directly",
        "regex pattern family: a literal pattern ('a' -> 'bb'); arbitrary user regexes are outside",
        "CDATA content does not contain ']]>' (cannot occur inside one section), comments do not contain '--'",
    ],
    "stubs": ["codetf.Change in xml_transformer (pure-Python class with the same validators: pydantic-core rejects symbolic ints)", "text sink (pure-Python TextIOBase)", "Locator (symbolic line/column)", "logger"],
    "outside": ["expat's event generation, namespaces, DOCTYPE internal subsets", "dry-run and diff fidelity of the pipelines' apply() (C03/C04 skeletons)", "insignificant whitespace added after comments"],
    "xh": [
        Xh("regex_plain", 240, 900),
        Xh("regex_sast", 240, 900),
        Xh("xml_characters", 120, 400),
        Xh("xml_cdata", 120, 400),
        Xh("xml_comment_pi", 120, 400),
        Xh("xml_attr_value", 180, 600),
        Xh("xml_match_result", 120, 300),
        Xh("xml_element_attrs", 120, 300),
        Xh("xml_new_element", 120, 300),
        Xh("xml_event_sequence", 200, 600),
        Xh("xml_pipeline_roundtrip", 200, 400),
        Xh("planted_cdata_escape", 60, 120, twin=False, expect="refuted"),
    ],
}
