"""C06 (whole-transformer family) — complete real SAST transformers with a SYMBOLIC finding location.

The real transformer of a Sonar / Semgrep / DefectDojo codemod runs natively on a module with three equally
vulnerable single-line sites and ONE result whose location (start line, start column, end line, end column) is
made of symbolic integers (vlib.symint).  z3 enumerates one witness per cell of the partition of Z^4 induced by the
comparisons the code itself makes against the location; for every cell the set of rewritten sites must be exactly
the set of sites the tool-convention matcher accepts for that location, and each rewritten site's change entry
must carry the finding."""
from pathlib import Path

import libcst as cst
from libcst.metadata import MetadataWrapper, PositionProvider

from codemodder.codetf import Finding, Rule
from codemodder.file_context import FileContext
from codemodder.registry import load_registered_codemods
from codemodder.result import LineInfo, Location, Result
from core_codemods.defectdojo.results import DefectDojoResult
from core_codemods.sonar.results import SonarResult
from vlib import symint

_CM = {c.id: c for c in load_registered_codemods().codemods}


class L(Location):
    pass


class SemgrepLike(Result):
    """A generic SARIF-style result (Result.match_location, 1-based columns)."""

    def __hash__(self):
        return id(self)


class _SonarH(SonarResult):
    def __hash__(self):
        return id(self)


class _DDH(DefectDojoResult):
    def __hash__(self):
        return id(self)


RANDOM_SRC = "import random\n\na = random.random()\nb = random.random()\nc = random.random()\n"
YAML_SRC = "import yaml\n\na = yaml.load(d)\nb = yaml.load(d)\nc = yaml.load(d)\n"

#        codemod id,                          source,     site marker,        result class, rule id
FAMILY = [
    ("sonar:python/secure-random", RANDOM_SRC, "random.random()", "sonar", "python:S2245"),
    ("semgrep:python/harden-pyyaml", YAML_SRC, "yaml.load(d)", "semgrep", None),
    ("defectdojo:python/avoid-insecure-deserialization", YAML_SRC, "yaml.load(d)", "defectdojo", None),
]
NAN_SRC = "import numpy as np\na = 1\nr1 = a == np.nan\nr2 = a == np.nan\nr3 = a == np.nan\n"
IDENT_SRC = "x = 1\n\nr1 = x is [1]\nr2 = x is [1]\nr3 = x is [1]\n"
INVERT_SRC = "a, b = 1, 2\n\nr1 = not a == b\nr2 = not a == b\nr3 = not a == b\n"
ISCLOSE_SRC = "import math\na = 1.0\nr1 = math.isclose(a, 0)\nr2 = math.isclose(a, 0)\nr3 = math.isclose(a, 0)\n"
SHELL_SRC = "import subprocess\ncmd = 'ls'\nsubprocess.run(cmd, shell=True)\nsubprocess.run(cmd, shell=True)\nsubprocess.run(cmd, shell=True)\n"
# thorough tier.  (literal-or-new-object-identity, fix-math-isclose and subprocess-shell-false match a different node
# than the whole expression - the operator / an argument - so the generic 'finding placed on the site' reference does
# not describe them; they are left out rather than given a guessed reference.)
MORE = [
    ("sonar:python/numpy-nan-equality", NAN_SRC, "a == np.nan", "sonar", None),
    ("sonar:python/invert-boolean-check", INVERT_SRC, "not a == b", "sonar", None),
]
FAMILY = [f for f in FAMILY if f[0] in _CM]
MORE = [f for f in MORE if f[0] in _CM]


def site_positions(src, marker):
    """Concrete positions of the candidate Call nodes (libcst PositionProvider), by source line."""
    mod = cst.parse_module(src)
    w = MetadataWrapper(mod)
    pos = w.resolve(PositionProvider)
    out = {}
    for node, p in pos.items():
        if isinstance(node, (cst.Call, cst.Comparison, cst.UnaryOperation)) and w.module.code_for_node(node) == marker:
            out[p.start.line] = (p.start.line, p.start.column, p.end.line, p.end.column)
    return out


def statement_positions(src):
    """Positions of the enclosing Assign statements (LibcstResultTransformer also dispatches selected Assign /
    ClassDef nodes to the codemod's on_result_found)."""
    mod = cst.parse_module(src)
    w = MetadataWrapper(mod)
    pos = w.resolve(PositionProvider)
    return {p.start.line: (p.start.line, p.start.column, p.end.line, p.end.column) for node, p in pos.items() if isinstance(node, cst.Assign)}


def expected_match(kind, pos, loc):
    sl, sc, el, ec = pos
    ls, lc, le, lec = loc
    if kind == "defectdojo":
        return sl <= ls <= el
    return sl == ls and el == le and sc in (lc - 1, lc) and ec in (lec - 1, lec)


def make_result(kind, codemod, space):
    ls, lc, le, lec = space.var("ls"), space.var("lc"), space.var("le"), space.var("lec")
    rule = (codemod.requested_rules or ["r"])[0]
    finding = Finding(id="F", rule=Rule(id=rule, name="n", url=None))
    loc = L(file=Path("m.py"), start=LineInfo(ls, lc), end=LineInfo(le, lec))
    if kind == "sonar":
        return _SonarH(finding_id="K", rule_id=rule, locations=[loc], finding=finding)
    if kind == "defectdojo":
        loc = L(file=Path("m.py"), start=LineInfo(ls), end=LineInfo(ls))
        return _DDH(finding_id=1, rule_id=rule, locations=[loc], finding=finding)
    return SemgrepLike(rule_id=rule, locations=[loc], finding=finding)


def explore(entry):
    cid, src, marker, kind, _ = entry
    codemod = _CM[cid]
    sites = site_positions(src, marker)
    stmts = statement_positions(src)
    src_lines = src.split("\n")
    space = symint.Space(["ls", "lc", "le", "lec"])

    def run(w):
        res = make_result(kind, codemod, space)
        fc = FileContext(Path("/d"), Path("/d/m.py"), [], [], [res])
        tree = cst.parse_module(src)
        try:
            for t in codemod.transformer.transformers:
                tree = t.transform(tree, [res], fc)
        except symint.Leak:
            raise
        except Exception as e:  # noqa
            loc = (w["ls"], w["lc"], w["le"], w["lec"])
            on_stmt = kind != "defectdojo" and any(expected_match(kind, p, loc) for p in stmts.values())
            return ("KNOWN:" if on_stmt else "") + "finding at %r: transformer raised %s: %s" % (loc, type(e).__name__, e)
        out_lines = [l.strip() for l in tree.code.split("\n")]
        loc = (w["ls"], w["lc"], w["le"], w["lec"])
        on_statement = kind != "defectdojo" and any(expected_match(kind, p, loc) for p in stmts.values()) and not any(expected_match(kind, p, loc) for p in sites.values())
        rewritten = sorted(L_ for L_ in sites if src_lines[L_ - 1].strip() not in out_lines)
        exp = sorted(L_ for L_, p in sites.items() if expected_match(kind, p, loc))
        if rewritten != exp:
            return "finding at %r: sites rewritten %r, sites the finding is placed on %r" % (loc, rewritten, exp)
        with_finding = sorted(c.lineNumber for c in fc.codemod_changes if any(f.id == "F" for f in (c.findings or [])))
        if with_finding != exp:
            return ("KNOWN:" if on_statement else "") + "finding at %r: change entries carrying the finding on lines %r, expected %r" % (loc, with_finding, exp)
        untouched = [l for i, l in enumerate(src_lines) if (i + 1) not in sites and l.strip() and not l.startswith("import")]
        if any(l.strip() not in out_lines for l in untouched):
            return "a line that is not a candidate site changed"
        return None

    cons = [lambda z: z["le"] >= z["ls"]] if kind != "defectdojo" else []
    done, runs, queries, fix = symint.explore(space, run, max_rounds=60, constraints=cons)
    return done, space.atoms, runs, queries, fix, sites
