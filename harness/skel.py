"""Shared pipeline skeletons for C03 / C04 / C10 / C15: the real `*Pipeline.apply` methods are run
against a recording fake file and stub transformers whose behaviour is chosen by symbolic flags."""
import io
from pathlib import Path

import libcst as cst
from crosshair.tracers import NoTracing

import codemodder.codemods.libcst_transformer as lt
import codemodder.codemods.regex_transformer as rt
import codemodder.codemods.xml_transformer as xt
from codemodder.codemods.libcst_transformer import LibcstTransformerPipeline
from codemodder.codemods.regex_transformer import RegexTransformerPipeline, SastRegexTransformerPipeline
from codemodder.codemods.xml_transformer import ElementAttributeXMLTransformer, XMLTransformerPipeline
from codemodder.codetf import Change, ChangeSet, Finding, Rule
from codemodder.diff import create_diff_from_tree
from codemodder.file_context import FileContext
from codemodder.result import LineInfo, Location, Result
from vlib.core import NoLog
from vlib.stubs import Boom, Ctx, FakePath

SRC_TEXT = "import os\na = 1\nb = 'x'\n"
NEW_TEXT = "import os\na = 2\nb = 'x'\n"
NEW2_TEXT = "import os\na = 2\nb = 'y'\nc = 3\n"
LATIN1_SRC = b"# -*- coding: latin-1 -*-\nimport os\na = 1\nb = '\xe9'\n"
BEFORE = {0: SRC_TEXT.encode(), 1: b"a = '\xff'\n", 2: b"def (:\n", 3: b"", 4: LATIN1_SRC}
SRC = cst.parse_module(SRC_TEXT)
NEW = cst.parse_module(NEW_TEXT)
NEW2 = cst.parse_module(NEW2_TEXT)

LOG = NoLog()
lt.logger = LOG
rt.logger = LOG
xt.logger = LOG


class L(Location):
    pass


class R(Result):
    def __hash__(self):
        return id(self)


def mk_results(n: int, line: int = 2):
    """n findings (n <= 2) located on `line` of the file."""
    out = []
    for i in range(n):
        out.append(R(rule_id="rule", locations=[L(file=Path("f.py"), start=LineInfo(line, 1), end=LineInfo(line, 5))], finding=Finding(id="F%d" % i, rule=Rule(id="rule", name="rule", url=None))))
    return out


def mk_transformer(raises: bool, changes: bool, alters: bool, new_tree=None, line: int = 2):
    class T:
        calls = 0

        @classmethod
        def transform(cls, tree, results, file_context):
            cls.calls += 1
            if raises:
                raise Boom()
            if changes:
                file_context.codemod_changes.append(Change(lineNumber=line, description="d", findings=file_context.get_findings_for_location(line)))
            if not alters:
                return tree
            # a local edit that keeps every other line of whatever was parsed
            if new_tree is None:
                return cst.parse_module(tree.code.replace("a = 1", "a = 2"))
            return cst.parse_module(tree.code + "c = 3\n")

    return T


class Obs:
    """What an observer of one pipeline.apply() call can see."""

    def __init__(self, fp, fc, cs, exc):
        self.writes = list(fp.writes)
        self.other = list(fp.other_mutations)
        self.failures = [str(p) for p in fc.failures]
        self.unfixed = [(u.id, u.path, u.lineNumber, u.reason) for u in fc.unfixed_findings]
        self.cs = None if cs is None else (cs.path, cs.diff, [(c.lineNumber, c.description, [f.id for f in (c.findings or [])]) for c in cs.changes])
        self.exc = exc
        self.final = fp.content

    def key(self):
        return (self.failures, self.unfixed, self.cs, self.exc)


def run_libcst(content_kind: int, dry_run: bool, t1: tuple, t2: tuple, n_findings: int, results_none: bool = False, fp=None):
    """content_kind: 0 valid source, 1 invalid UTF-8, 2 syntax error, 3 file vanished, 4 latin-1 source with a
    PEP 263 coding cookie and a non-ASCII character (not valid UTF-8: codemodder reads UTF-8 only).
    t1/t2: (raises, changes, alters) of two chained stub transformers."""
    if fp is None:
        if content_kind == 0:
            fp = FakePath(SRC_TEXT.encode())
        elif content_kind == 1:
            fp = FakePath(b"a = '\xff'\n")
        elif content_kind == 2:
            fp = FakePath(b"def (:\n")
        elif content_kind == 3:
            fp = FakePath(b"", vanished=True)
        else:
            fp = FakePath(LATIN1_SRC)
    results = None if results_none else mk_results(n_findings)
    fc = FileContext(Path("/d"), fp, [], [], results)
    pipe = LibcstTransformerPipeline(mk_transformer(*t1), mk_transformer(t2[0], t2[1], t2[2], NEW2))
    exc = None
    cs = None
    try:
        cs = pipe.apply(Ctx(dry_run), fc, results)
    except Exception as e:  # noqa: an escaping exception is itself an observation
        exc = type(e).__name__
    return fp, fc, Obs(fp, fc, cs, exc)


def run_regex(content_kind: int, dry_run: bool, matches: bool, sast: bool, n_findings: int, finding_line: int):
    """Real Regex / SastRegex pipeline on a 3-line file; pattern 'a = 1' -> 'a = 2' (matches line 2) or a
    pattern that matches nothing."""
    if content_kind == 0 or content_kind == 3:
        fp = FakePath(SRC_TEXT.encode(), rel="f.txt")
    elif content_kind == 1:
        fp = FakePath(b"a = '\xff'\n", rel="f.txt")
    else:
        fp = FakePath(b"", rel="f.txt", vanished=True)
    results = mk_results(n_findings, finding_line)
    fc = FileContext(Path("/d"), fp, [], [], results)
    klass = SastRegexTransformerPipeline if sast else RegexTransformerPipeline
    if content_kind == 3:
        # a plug-in transformer whose substitution step raises (healthy file)
        base = klass

        class klass(base):  # noqa
            def _apply_regex(self, line):
                raise Boom()

    pipe = klass(pattern=r"a = 1" if matches else r"zzz", replacement="a = 2", change_description="d")
    exc = None
    cs = None
    try:
        cs = pipe.apply(Ctx(dry_run), fc, results)
    except Exception as e:  # noqa
        exc = type(e).__name__
    return fp, fc, Obs(fp, fc, cs, exc)


XML_TEXT = '<root>\n  <item flag="no">t</item>\n</root>\n'


class FakeSaxParser:
    """Stands for defusedxml's expat parser: drives the content handler with the events of XML_TEXT
    (or raises, for a document that is not XML).  The real handler classes do the writing."""

    bad = False

    def setContentHandler(self, h):
        self.h = h

    def setProperty(self, name, value):
        pass

    def parse(self, source):
        from xml.sax.xmlreader import AttributesImpl, Locator

        if FakeSaxParser.bad:
            raise ValueError("not XML")
        loc = Locator()
        pos = {"l": 1, "c": 0}
        loc.getLineNumber = lambda: pos["l"]
        loc.getColumnNumber = lambda: pos["c"]
        h = self.h
        h.setDocumentLocator(loc)
        h.startDocument()
        h.startElement("root", AttributesImpl({}))
        h.characters("\n  ")
        pos["l"], pos["c"] = 2, 2
        h.startElement("item", AttributesImpl({"flag": "no"}))
        h.characters("t")
        h.endElement("item")
        h.characters("\n")
        pos["l"], pos["c"] = 3, 0
        h.endElement("root")
        h.endDocument()


class StrTemp(io.TextIOBase):
    """TemporaryFile('w+') stand-in: pure-Python text sink."""

    def __init__(self, *a, **k):
        self.buf = []
        self.text = None

    def writable(self):
        return True

    def __enter__(self):
        return self

    def __exit__(self, *a):
        return False

    def write(self, s):
        self.buf.append(s)

    def flush(self):
        pass

    def seek(self, n):
        self.text = "".join(self.buf)

    def readlines(self):
        return (self.text if self.text is not None else "".join(self.buf)).splitlines(keepends=True)


def run_xml(bad_xml: bool, vanished: bool, dry_run: bool, target: bool, n_findings: int, finding_line: int, results_none: bool):
    fp = FakePath(XML_TEXT.encode(), rel="c.xml", vanished=vanished)
    results = None if results_none else mk_results(n_findings, finding_line)
    if results:
        for r in results:
            r.locations[0].start.column = 3  # 1-based column of <item>
    fc = FileContext(Path("/d"), fp, [], [], results)
    amap = {"item": {"flag": "yes"}} if target else {"other": {"flag": "yes"}}

    class T(ElementAttributeXMLTransformer):
        change_description = "d"

        def __init__(self, out, file_context, results=None, **kw):
            super().__init__(out, file_context, name_attributes_map=amap, results=results)

    FakeSaxParser.bad = bad_xml
    xt.make_parser = FakeSaxParser
    xt.TemporaryFile = StrTemp
    pipe = XMLTransformerPipeline(T)
    exc = None
    cs = None
    try:
        cs = pipe.apply(Ctx(dry_run), fc, results)
    except Exception as e:  # noqa
        exc = type(e).__name__
    return fp, fc, Obs(fp, fc, cs, exc)


def warm():
    ChangeSet(path="p", diff="d", changes=[Change(lineNumber=1, description="d")])
    create_diff_from_tree(SRC, NEW)
    for k in range(5):
        run_libcst(k, False, (False, True, True), (False, True, True), 1)
    run_libcst(0, True, (True, True, True), (False, False, False), 2)
    for k in range(3):
        try:
            run_regex(k, False, True, False, 1, 2)
            run_regex(k, True, True, True, 1, 2)
        except Exception:
            pass
    run_xml(False, False, False, True, 1, 2, False)
    run_xml(True, False, False, True, 1, 2, True)
    run_xml(False, False, True, False, 0, 2, True)
