import sys; sys.setrecursionlimit(20000)
from typing import List
from pathlib import Path
import libcst as cst
from codemodder.file_context import FileContext
from core_codemods.invert_boolean_check import InvertedBooleanCheck
from codemodder.codetf import Change, ChangeSet
ChangeSet(path="p", diff="d", changes=[Change(lineNumber=1, description="d")])
import codemodder.codemods.libcst_transformer as lt
class _NoLog:
    def __getattr__(self, k): return lambda *a, **k: None
lt.logger = _NoLog()

SRC = "a = 1\nx = not a == 2\nb = 2\ny = not b < 3\nc = 3\nz = not c != 4\n"
SITES = [2, 4, 6]
AFTER = {2: "x = a != 2", 4: "y = b >= 3", 6: "z = c == 4"}
TREE = cst.parse_module(SRC)

def run(line_exclude: List[int]) -> bool:
    """
    pre: len(line_exclude) <= 2
    post: _
    """
    fc = FileContext(Path("/d"), Path("/d/f.py"), line_exclude, [], None)
    tree = TREE
    for t in InvertedBooleanCheck.transformer.transformers:
        tree = t.transform(tree, None, fc)
    out = tree.code.split("\n")
    ok = True
    for ln in SITES:
        rewritten = out[ln - 1] == AFTER[ln]
        ok = ok and (rewritten == (ln not in line_exclude))
    ok = ok and sorted(c.lineNumber for c in fc.codemod_changes) == [ln for ln in SITES if ln not in line_exclude]
    return ok
