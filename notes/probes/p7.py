from typing import List, Tuple
from pathlib import Path
from codemodder.result import ResultSet, Result, Location, LineInfo

RULES = ["r0", "r1"]
FILES = [Path("a.py"), Path("b.py")]

class L(Location):
    pass
class R(Result):
    def __hash__(self): return id(self)

def build(items: List[Tuple[int, int, int]]) -> ResultSet:
    rs = ResultSet()
    for (r, f, line) in items:
        rs.add_result(R(rule_id=RULES[r % 2], locations=[L(file=FILES[f % 2], start=LineInfo(line), end=LineInfo(line))]))
    return rs

def flat(rs):
    out = []
    for rule in RULES:
        for f in FILES:
            for res in rs.get(rule, {}).get(f, []):
                out.append((rule, str(f), res.locations[0].start.line))
    return sorted(out)

def merge_or(a: List[Tuple[int, int, int]], b: List[Tuple[int, int, int]]) -> bool:
    """
    pre: len(a) <= 2 and len(b) <= 2
    post: _
    """
    ra, rb = build(a), build(b)
    m = ra | rb
    return flat(m) == sorted(flat(ra) + flat(rb))

def merge_ior(a: List[Tuple[int, int, int]], b: List[Tuple[int, int, int]]) -> bool:
    """
    pre: len(a) <= 2 and len(b) <= 2
    post: _
    """
    ra, rb = build(a), build(b)
    exp = sorted(flat(ra) + flat(rb))
    m = ResultSet()
    m |= ra
    m |= rb
    return flat(m) == exp
