import itertools, time, fnmatch as real_fnmatch, types
from pathlib import Path
import codemodder.code_directory as cd

SENT = "\x00SYM\x00.py"
class Oracle:
    def __init__(self): self.vec = {}; self.seen = []
    def filter(self, names, pat):
        names = list(names)
        assert names == [SENT], names       # leak guard: only the sentinel flows through
        if pat not in self.seen: self.seen.append(pat)
        return names if self.vec.get(pat, False) else []
ORA = Oracle()
cd.fnmatch = types.SimpleNamespace(filter=lambda names, pat: ORA.filter(names, pat),
                                   fnmatch=lambda *a: (_ for _ in ()).throw(AssertionError("unexpected fnmatch.fnmatch")))

def outcome(exclude, include, vec):
    ORA.vec = vec; ORA.seen = []
    parent = Path("/T")
    out = cd.match_files(parent, [parent / SENT], exclude, include)
    assert out in ([], [parent / SENT])
    return bool(out), list(ORA.seen)

# discover queried patterns for defaults
_, pats = outcome(None, None, {})
print(len(pats), pats[:4])
inc = [p for p in pats if p in cd.DEFAULT_INCLUDED_PATHS]; exc = [p for p in pats if p not in inc]
t = time.time(); n = 0; bad = []
for k in range(0, 3):
    for ex_true in itertools.combinations(exc, k):
        for inc_true in itertools.chain.from_iterable(itertools.combinations(inc, r) for r in range(len(inc)+1)):
            vec = {p: True for p in ex_true + inc_true}
            got, _ = outcome(None, None, vec); n += 1
            ref = bool(inc_true) and not ex_true
            if got != ref: bad.append(vec)
print("vectors", n, "mismatch", len(bad), round(time.time()-t, 2), "s")
# user config with :line suffixes
for excl, incl in [(["tests/**", "src/a.py:3"], ["src/*.py:2", "lib/**"])]:
    _, pats = outcome(excl, incl, {})
    print("queried:", pats)
