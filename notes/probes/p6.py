from typing import List
from pathlib import Path
import libcst as cst
import codemodder.codemods.libcst_transformer as lt
from codemodder.codemods.libcst_transformer import LibcstTransformerPipeline
from codemodder.file_context import FileContext
from codemodder.codetf import Change

SRC = cst.parse_module("a = 1\n")
NEW = cst.parse_module("a = 2\n")

# warm-up: pydantic builds validators lazily; do it before symbolic execution
from codemodder.codetf import ChangeSet
ChangeSet(path="p", diff="d", changes=[Change(lineNumber=1, description="d")])
from codemodder.diff import create_diff_from_tree
create_diff_from_tree(SRC, NEW)

class _NoLog:
    def __getattr__(self, k):
        return lambda *a, **k: None
lt.logger = _NoLog()

class FakePath:
    def __init__(self, decode_ok: bool):
        self.decode_ok = decode_ok
        self.writes = []
    def read_bytes(self):
        return b"a = 1\n" if self.decode_ok else b"\xff"
    def write_bytes(self, b):
        self.writes.append(b)
    def relative_to(self, d):
        return Path("f.py")

class Ctx:
    def __init__(self, dry_run):
        self.dry_run = dry_run
        self.directory = Path("/d")

class Boom(Exception):
    pass

def mk_transformer(raises: bool, changes: bool, alter: bool):
    class T:
        @classmethod
        def transform(cls, tree, results, file_context):
            if raises:
                raise Boom()
            if changes:
                file_context.codemod_changes.append(Change(lineNumber=1, description="d"))
            return NEW if alter else tree
    return T

def skeleton(decode_ok: bool, dry_run: bool, raises: bool, changes: bool, alter: bool) -> int:
    """
    post: _ in (0, 1, 2, 3)
    """
    fp = FakePath(decode_ok)
    fc = FileContext(Path("/d"), fp, [], [], None)
    pipe = LibcstTransformerPipeline(mk_transformer(raises, changes, alter))
    cs = pipe.apply(Ctx(dry_run), fc, None)
    wrote = len(fp.writes) > 0
    failed = len(fc.failures) > 0
    # properties
    if dry_run:
        assert not wrote                      # C04
    if failed:
        assert not wrote and cs is None       # C10
    if cs is not None:
        assert cs.diff != "" and len(cs.changes) >= 1 and not failed   # C15
        assert wrote == (not dry_run)
        if wrote:
            assert fp.writes == [NEW.code.encode()]   # C03 (bytes written == tree the diff was taken from)
    else:
        assert not wrote                      # C03: no changeset => untouched
    return (1 if wrote else 0) + (2 if failed else 0)
