import z3, time, sys, re
try:
    import re._parser as sre_parse, re._constants as C
except ImportError:
    import sre_parse, sre_constants as C
import fnmatch
sys.path.insert(0, "/repo/src")
from codemodder.code_directory import DEFAULT_EXCLUDED_PATHS, DEFAULT_INCLUDED_PATHS

ANY = z3.AllChar(z3.ReSort(z3.StringSort()))
def lit(ch): return z3.Re(chr(ch))
def tr(seq, dotall):
    parts = []
    for op, av in seq:
        op = str(op)
        if op == "LITERAL": parts.append(lit(av))
        elif op == "ANY": parts.append(ANY if dotall else z3.Diff(ANY, z3.Re("\n")))
        elif op in ("MAX_REPEAT", "MIN_REPEAT"):
            lo, hi, sub = av
            r = tr(sub, dotall)
            if lo == 0 and hi == C.MAXREPEAT: parts.append(z3.Star(r))
            elif lo == 1 and hi == C.MAXREPEAT: parts.append(z3.Plus(r))
            elif lo == 0 and hi == 1: parts.append(z3.Option(r))
            else: parts.append(z3.Loop(r, lo, hi))
        elif op == "SUBPATTERN":
            g, add, dele, sub = av
            parts.append(tr(sub, dotall or bool(add & re.DOTALL)))
        elif op == "ATOMIC_GROUP":
            parts.append(tr(av, dotall))   # approximated as plain group (validated separately)
        elif op == "AT":
            assert str(av) in ("AT_END_STRING",), av
        elif op == "IN":
            alts = []; neg = False
            for o2, a2 in av:
                o2 = str(o2)
                if o2 == "NEGATE": neg = True
                elif o2 == "LITERAL": alts.append(lit(a2))
                elif o2 == "RANGE": alts.append(z3.Range(chr(a2[0]), chr(a2[1])))
                else: raise NotImplementedError(o2)
            u = alts[0] if len(alts) == 1 else z3.Union(*alts)
            parts.append(z3.Diff(ANY, u) if neg else u)
        else:
            raise NotImplementedError(op)
    if not parts: return z3.Re("")
    return parts[0] if len(parts) == 1 else z3.Concat(*parts)

def glob_re(pat):
    return tr(sre_parse.parse(fnmatch.translate(pat)), False)

p = z3.String("p")
inc = z3.Or(*[z3.InRe(p, glob_re(g)) for g in DEFAULT_INCLUDED_PATHS])
exc = z3.Or(*[z3.InRe(p, glob_re(g)) for g in DEFAULT_EXCLUDED_PATHS])
sel = z3.And(inc, z3.Not(exc))
def check(name, claim, bound=64):
    s = z3.Solver(); s.set("timeout", 60000)
    s.add(z3.Length(p) <= bound, z3.Not(claim))
    t = time.time(); r = s.check()
    print(name, r, round(time.time()-t, 2), s.model()[p] if str(r) == "sat" else "")
check("inc<=>endswith.py", inc == z3.SuffixOf(z3.StringVal(".py"), p))
check("tests/ excluded", z3.Implies(z3.PrefixOf(z3.StringVal("tests/"), p), exc))
check("nested tests excluded?", z3.Implies(z3.Contains(p, z3.StringVal("/tests/")), exc))
check("sel => .py", z3.Implies(sel, z3.SuffixOf(z3.StringVal(".py"), p)))
dirs = ["test","tests","build","dist","venv",".venv",".tox",".nox",".eggs",".git",".mypy_cache",".pytest_cache",".hypothesis"]
spec = z3.And(z3.SuffixOf(z3.StringVal(".py"), p),
   *[z3.Not(z3.PrefixOf(z3.StringVal(d+"/"), p)) for d in dirs],
   *[z3.Not(z3.Contains(p, z3.StringVal("/"+d+"/"))) for d in ["__test__","__tests__","site-packages"]],
   p != z3.StringVal("conftest.py"), z3.Not(z3.PrefixOf(z3.StringVal(".coverage"), p)))
check("sel <=> component spec", sel == spec)
print("--- per pattern")
S = z3.StringVal
def meaning(g):
    if g.endswith("/**") and not g.startswith("**/"):
        return z3.PrefixOf(S(g[:-2]), p)
    if g.startswith("**/") and g.endswith("/**"):
        return z3.Contains(p, S(g[2:-2]))
    if g.endswith("*"):
        return z3.PrefixOf(S(g[:-1]), p)
    return p == S(g)
for g in DEFAULT_EXCLUDED_PATHS:
    check(g, z3.InRe(p, glob_re(g)) == meaning(g))
print("--- regex-form")
ALL = z3.Star(ANY)
def R_prefix(s): return z3.Concat(z3.Re(s), ALL)
def R_contains(s): return z3.Concat(ALL, z3.Re(s), ALL)
def R_suffix(s): return z3.Concat(ALL, z3.Re(s))
for g in ["**/__test__/**", "**/site-packages/**"]:
    check(g, z3.InRe(p, glob_re(g)) == z3.InRe(p, R_contains(g[2:-2])))
spec_re = z3.Intersect(R_suffix(".py"),
    z3.Complement(z3.Union(*[R_prefix(d+"/") for d in dirs], *[R_contains("/"+d+"/") for d in ["__test__","__tests__","site-packages"]], z3.Re("conftest.py"), R_prefix(".coverage"))))
check("sel <=> spec_re", sel == z3.InRe(p, spec_re))
sel_re = z3.Intersect(z3.Union(*[glob_re(g) for g in DEFAULT_INCLUDED_PATHS]), z3.Complement(z3.Union(*[glob_re(g) for g in DEFAULT_EXCLUDED_PATHS])))
check("sel_re <=> spec_re", z3.InRe(p, sel_re) == z3.InRe(p, spec_re))
