import re
def f(line: str) -> str:
    """
    pre: len(line) <= 4
    post: "x" not in _ and len(_) == len(line)
    """
    return re.sub("x", "y", line)

def g(line: str) -> str:
    """
    pre: len(line) <= 4
    post: "x" not in _
    """
    return re.sub(r"x+", "yy", line)
