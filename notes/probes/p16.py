from codemodder.diff import create_diff
ALPH = "a\n\r\x0c"

def apply_unified_diff(before: str, diff: str):
    # reference patcher: lines are '\n'-terminated only (what patch(1)/git-apply do)
    if diff == "":
        return before
    src = before.split("\n")
    if src and src[-1] == "":
        src.pop()
    dl = diff.split("\n")
    if dl and dl[-1] == "":
        dl.pop()
    out = []
    si = 0
    i = 0
    while i < len(dl):
        l = dl[i]
        if l.startswith("---") or l.startswith("+++"):
            i += 1; continue
        if l.startswith("@@"):
            start = int(l.split(" ")[1].split(",")[0][1:])
            cnt = l.split(" ")[1].split(",")
            n = int(cnt[1]) if len(cnt) > 1 else 1
            tgt = start - 1 if n > 0 else start
            while si < tgt:
                out.append(src[si]); si += 1
            i += 1; continue
        tag, body = l[:1], l[1:]
        if tag == " ":
            if si >= len(src) or src[si] != body: return None
            out.append(body); si += 1
        elif tag == "-":
            if si >= len(src) or src[si] != body: return None
            si += 1
        elif tag == "+":
            out.append(body)
        else:
            return None
        i += 1
    out.extend(src[si:])
    return "".join(x + "\n" for x in out)

def norm(s):  # up to the presence of a final newline
    return s[:-1] if s.endswith("\n") else s

def fidelity(before: str, after: str) -> bool:
    """
    pre: len(before) <= 3 and len(after) <= 3
    pre: all(c in ALPH for c in before) and all(c in ALPH for c in after)
    post: _
    """
    d = create_diff(before.splitlines(keepends=True), after.splitlines(keepends=True))
    got = apply_unified_diff(before, d)
    return got is not None and norm(got) == norm(after)
