import sys, glob
import libcst as cst
from libcst.metadata import PositionProvider, MetadataWrapper
files = glob.glob("/repo/src/**/*.py", recursive=True) + glob.glob("/repo/tests/samples/**/*.py", recursive=True)
KINDS = (cst.Call, cst.Assign, cst.ClassDef)
bad = 0; pairs = 0; nfiles = 0
for f in files:
    try:
        w = MetadataWrapper(cst.parse_module(open(f).read()))
    except Exception: continue
    nfiles += 1
    pos = w.resolve(PositionProvider)
    by_lines = {}
    for n, p in pos.items():
        if isinstance(n, KINDS):
            by_lines.setdefault((p.start.line, p.end.line), []).append((p.start.column, p.end.column, type(n).__name__))
    for k, lst in by_lines.items():
        for i in range(len(lst)):
            for j in range(i + 1, len(lst)):
                a, b = lst[i], lst[j]; pairs += 1
                if abs(a[0] - b[0]) <= 1 and abs(a[1] - b[1]) <= 1:
                    bad += 1
                    if bad <= 10: print("NEAR", f, k, a, b)
print("files", nfiles, "pairs", pairs, "near-pairs", bad)
