from typing import List, Tuple
from libcst._position import CodeRange, CodePosition
from codemodder.codemods.base_visitor import UtilsMixin, match_line
from codemodder.result import Result, Location, LineInfo, same_line
from pathlib import Path

class L(Location):
    pass
class R(Result):
    pass

def sel(line_exclude: List[int], line_include: List[int], sl:int, sc:int, el:int, ec:int) -> bool:
    """
    pre: sl >= 1 and el >= sl and sc >= 0 and ec >= 0
    pre: len(line_exclude) <= 3 and len(line_include) <= 3
    post: (not _) or (not (sl == el and sl in line_exclude))
    post: (not _) or (not line_include) or bool(line_exclude) or (sl == el and sl in line_include)
    """
    u = UtilsMixin(None, line_exclude, line_include)
    return u.filter_by_path_includes_or_excludes(CodeRange((sl, sc), (el, ec)))

def ml(sl:int, sc:int, el:int, ec:int, lsl:int, lsc:int, lel:int, lec:int) -> bool:
    """
    post: _ == (sl == lsl and el == lel and (lsc - sc) in (0, 1) and (lec - ec) in (0,1))
    """
    r = R(rule_id="x", locations=[L(file=Path("f"), start=LineInfo(lsl, lsc), end=LineInfo(lel, lec))])
    return r.match_location(CodeRange((sl, sc), (el, ec)), None)
