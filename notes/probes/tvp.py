"""E2 prototype: combine-startswith-endswith / invert-boolean over a small grammar."""
import ast, itertools, time, sys, tempfile, os
from pathlib import Path
import z3
import libcst as cst
from codemodder.file_context import FileContext
from core_codemods.combine_startswith_endswith import CombineStartswithEndswith
from core_codemods.combine_isinstance_issubclass import CombineIsinstanceIssubclass
from core_codemods.invert_boolean_check import InvertedBooleanCheck

def pipeline(codemod, src):
    d = Path("/nonexistent"); f = d / "t.py"
    fc = FileContext(d, f, [], [], None)
    tree = cst.parse_module(src)
    for t in codemod.transformer.transformers:
        tree = t.transform(tree, None, fc)
    return tree.code, len(fc.codemod_changes)

EXC_NONE, EXC_NAME, EXC_TYPE = 0, 1, 2
class Ev:
    def __init__(self, kinds, bound_names):
        self.kinds = kinds; self.bound = bound_names; self.vars = {}
    def v(self, name, sort):
        key = (name, sort)
        if key not in self.vars:
            self.vars[key] = z3.Bool(name) if sort == "b" else z3.Int(name)
        return self.vars[key]
    def truth(self, t): return t if z3.is_bool(t) else t != 0
    def seq(self, k1, k2, cond=None):
        # exception of first, else (if cond) exception of second
        k2 = k2 if cond is None else z3.If(cond, k2, EXC_NONE)
        return z3.If(k1 != EXC_NONE, k1, k2)
    def name(self, n):
        if n not in self.bound: return z3.IntVal(EXC_NAME), z3.IntVal(0)
        kind = self.kinds.get(n, "i")
        return z3.IntVal(EXC_NONE), self.v("v_" + n, "b" if kind == "b" else "i")
    def pred(self, meth, recv, elt_node):
        """truth of recv.meth(elt) for a scalar-or-tuple-valued element expression; returns (exc, bool)"""
        if isinstance(elt_node, ast.Name):
            n = elt_node.id
            if n not in self.bound: return z3.IntVal(EXC_NAME), z3.BoolVal(False), z3.BoolVal(False)
            tup = self.v("tup_" + n, "b")
            scalar = self.v(f"{meth}_{recv}_{n}", "b")
            t1 = self.v(f"{meth}_{recv}_{n}_1", "b"); t2 = self.v(f"{meth}_{recv}_{n}_2", "b")
            return z3.IntVal(EXC_NONE), z3.If(tup, z3.Or(t1, t2), scalar), tup
        if isinstance(elt_node, ast.Constant):
            return z3.IntVal(EXC_NONE), self.v(f"{meth}_{recv}_c{abs(hash(elt_node.value))%997}", "b"), z3.BoolVal(False)
        raise NotImplementedError(ast.dump(elt_node))
    def call(self, e):
        f = e.func
        if isinstance(f, ast.Attribute) and f.attr in ("startswith", "endswith") and isinstance(f.value, ast.Name):
            recv = f.value.id
            kr, _ = self.name(recv)
            arg = e.args[0]
            if isinstance(arg, ast.Tuple):
                k = kr; val = z3.BoolVal(False)
                for el in arg.elts:
                    ke, ve, tup = self.pred(f.attr, recv, el)
                    k = self.seq(k, ke); k = self.seq(k, z3.If(tup, EXC_TYPE, EXC_NONE))   # nested tuple -> TypeError
                    val = z3.Or(val, ve)
                return k, val
            ke, ve, _ = self.pred(f.attr, recv, arg)
            return self.seq(kr, ke), ve
        raise NotImplementedError(ast.dump(e))
    def expr(self, e):
        if isinstance(e, ast.Name): return self.name(e.id)
        if isinstance(e, ast.Constant):
            return z3.IntVal(EXC_NONE), (z3.BoolVal(e.value) if isinstance(e.value, bool) else z3.IntVal(e.value))
        if isinstance(e, ast.Call): return self.call(e)
        if isinstance(e, ast.UnaryOp) and isinstance(e.op, ast.Not):
            k, v = self.expr(e.operand); return k, z3.Not(self.truth(v))
        if isinstance(e, ast.BoolOp):
            k, v = self.expr(e.values[0]); v = self.truth(v)
            for nxt in e.values[1:]:
                k2, v2 = self.expr(nxt); v2 = self.truth(v2)
                go = v if isinstance(e.op, ast.And) else z3.Not(v)
                k = self.seq(k, k2, go); v = z3.If(go, v2, v)
            return k, v
        if isinstance(e, ast.Compare):
            k, left = self.expr(e.left); res = z3.BoolVal(True)
            for op, c in zip(e.ops, e.comparators):
                k2, right = self.expr(c)
                k = self.seq(k, k2, res)
                if z3.is_bool(left) != z3.is_bool(right):
                    left_i = z3.If(left, 1, 0) if z3.is_bool(left) else left
                    right_i = z3.If(right, 1, 0) if z3.is_bool(right) else right
                else: left_i, right_i = left, right
                r = {ast.Eq: lambda: left_i == right_i, ast.NotEq: lambda: left_i != right_i, ast.Lt: lambda: left_i < right_i,
                     ast.Gt: lambda: left_i > right_i, ast.LtE: lambda: left_i <= right_i, ast.GtE: lambda: left_i >= right_i}[type(op)]()
                res = z3.And(res, r); left = right
            return k, res
        raise NotImplementedError(ast.dump(e))

def names_of(tree): return {n.id for n in ast.walk(tree) if isinstance(n, ast.Name)}

def compare(before_src, after_src, kinds):
    b = ast.parse(before_src).body[0].value; a = ast.parse(after_src).body[0].value
    bound = names_of(b)
    ev = Ev(kinds, bound)
    kb, vb = ev.expr(b); ka, va = ev.expr(a)
    s = z3.Solver()
    s.add(z3.Or(kb != ka, z3.And(kb == EXC_NONE, ev.truth(vb) != ev.truth(va))))
    r = s.check()
    return str(r), (s.model() if str(r) == "sat" else None)

# grammar: boolean trees over atoms
ATOMS = ["a.startswith(x)", "a.startswith(y)", "a.endswith(x)", "b.startswith(x)", "a.startswith((x, y))", "p", "q"]
def trees(depth):
    if depth == 0:
        yield from ATOMS; return
    yield from trees(depth - 1)
    for op in ("and", "or"):
        for l in trees(depth - 1):
            for r in trees(depth - 1):
                yield f"{l} {op} {r}"
                if depth > 1: yield f"({l}) {op} ({r})"
progs = sorted(set(trees(2)))
print("programs", len(progs))
t0 = time.time(); changed = 0; sat = []; errs = 0
cm = CombineStartswithEndswith()
for i, e in enumerate(progs):
    src = f"r = {e}\n"
    out, nch = pipeline(cm, src)
    if out == src: continue
    changed += 1
    try:
        r, m = compare(src, out, {"p": "b", "q": "b"})
    except NotImplementedError as ex:
        errs += 1; continue
    if r == "sat": sat.append((src.strip(), out.strip()))
print("changed", changed, "non-equivalent", len(sat), "untranslatable", errs, "time", round(time.time() - t0, 1))
for x in sat[:12]: print("  ", x)
