import sys, time, ast, z3, itertools, re
sys.argv = ["x"]
import importlib.util
src = open("tvp.py").read().split("# grammar: boolean trees over atoms")[0]
exec(compile(src, "tvp_head", "exec"))

def compare2(before_src, after_src, kinds, scalar_only):
    b = ast.parse(before_src).body[0].value; a = ast.parse(after_src).body[0].value
    ev = Ev(kinds, names_of(b))
    kb, vb = ev.expr(b); ka, va = ev.expr(a)
    s = z3.Solver()
    s.add(z3.Or(kb != ka, z3.And(kb == EXC_NONE, ev.truth(vb) != ev.truth(va))))
    if scalar_only:
        for (n, sort), var in list(ev.vars.items()):
            if n.startswith("tup_"): s.add(z3.Not(var))
    r = s.check()
    return str(r), (s.model() if str(r) == "sat" else None)

ATOMS = ["a.startswith(x)", "a.startswith(y)", "a.endswith(z)", "b.startswith(x)", "a.startswith((x, y))", "p"]
def trees(depth):
    if depth == 0:
        yield from ATOMS; return
    yield from trees(depth - 1)
    for op in ("and", "or"):
        for l in trees(depth - 1):
            for r in trees(depth - 1):
                yield f"{l} {op} {r}"
                if depth > 1: yield f"({l}) {op} ({r})"
progs = sorted(set(trees(1)))
# depth 2 sample: left-assoc triples without parens + parenthesised right
for a, b, c in itertools.product(ATOMS, repeat=3):
    for o1, o2 in itertools.product(("and", "or"), repeat=2):
        progs.append(f"{a} {o1} {b} {o2} {c}")
        progs.append(f"{a} {o1} ({b} {o2} {c})")
progs = sorted(set(progs))
print("programs", len(progs))
cm = CombineStartswithEndswith()
t0 = time.time(); changed = 0; s_sat = []; t_sat = []
for e in progs:
    src_ = f"r = {e}\n"
    out, nch = pipeline(cm, src_)
    if out == src_: continue
    changed += 1
    r, m = compare2(src_, out, {"p": "b"}, True)
    if r == "sat": s_sat.append((src_.strip(), out.strip())); continue
    r, m = compare2(src_, out, {"p": "b"}, False)
    if r == "sat": t_sat.append((src_.strip(), out.strip()))
print("changed", changed, "scalar-world non-equivalent", len(s_sat), "tuple-name only", len(t_sat), round(time.time()-t0, 1), "s")
shapes = {}
for b, a in s_sat:
    sh = re.sub(r"[ab]\.(startswith|endswith)\(\(?[xyz, ]+\)?\)", "C", b[4:]); sh = re.sub(r"\bp\b", "X", sh)
    shapes.setdefault(sh, []).append((b, a))
for sh, l in sorted(shapes.items(), key=lambda kv: -len(kv[1])): print(len(l), sh, "   e.g.", l[0])
print("tuple-name sample:", t_sat[:3])
