from typing import List, Tuple, Optional
import io, types
import core_codemods.sonar.results as sr
from core_codemods.sonar.results import SonarResultSet, SonarResult
from codemodder.codetf import Finding, Rule
Finding(id="x", rule=Rule(id="x", name="x", url="u"))
class _NoLog:
    def __getattr__(self, k): return lambda *a, **k: None
import traceback
class _L:
    def exception(self, *a, **k): traceback.print_exc()
    def __getattr__(self, k): return lambda *a, **k: None
sr.logger = _L()
DOC = {}
sr.json = types.SimpleNamespace(load=lambda f: DOC["d"])
sr.open = lambda *a, **k: io.StringIO("")
STATUS = ["OPEN", "TO_REVIEW", "CLOSED", "RESOLVED", "open"]
RULES = ["python:S1", "python:S2"]
FILES = ["a.py", "b.py"]

def sonar(items: List[Tuple[int, int, int, int, int, int, int]], as_hotspots: bool) -> bool:
    """
    pre: len(items) <= 2
    post: _
    """
    entries = []
    for n, (st, r, f, sl, so, el, eo) in enumerate(items):
        e = {"key": "K%d" % n, "status": STATUS[st % 5], "component": "proj:" + FILES[f % 2],
             "textRange": {"startLine": sl, "startOffset": so, "endLine": el, "endOffset": eo}, "message": "m"}
        e["ruleKey" if as_hotspots else "rule"] = RULES[r % 2]
        entries.append(e)
    DOC["d"] = {"hotspots": entries} if as_hotspots else {"issues": entries}
    rs = SonarResultSet.from_json.__wrapped__(SonarResultSet, "f.json")
    got = []
    for rule in RULES:
        for f in FILES:
            from pathlib import Path
            for res in rs.get(rule, {}).get(Path(f), []):
                l = res.locations[0]
                got.append((res.finding_id, rule, f, l.start.line, l.start.column, l.end.line, l.end.column))
    exp = []
    for rule in RULES:
        for f in FILES:
            for n, (st, r, ff, sl, so, el, eo) in enumerate(items):
                if RULES[r % 2] == rule and FILES[ff % 2] == f and STATUS[st % 5].lower() in ("open", "to_review"):
                    exp.append(("K%d" % n, rule, f, sl, so, el, eo))
    return got == exp
