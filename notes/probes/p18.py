from typing import List
from pathlib import Path
import types
from packaging.requirements import Requirement
from codemodder.dependency_management.setupcfg_writer import SetupCfgWriter
import codemodder.dependency_management.setupcfg_writer as sw
class _NoLog:
    def __getattr__(self, k):
        return lambda *a, **k: None
sw.logger = _NoLog()
DEP = types.SimpleNamespace(requirement=Requirement("security==1.3.1"))

def cfg(setup_deps: List[str], inst_deps: List[str]) -> bool:
    """
    pre: len(setup_deps) <= 2 and 1 <= len(inst_deps) <= 2
    pre: all(1 <= len(d) <= 2 and d.isalpha() for d in setup_deps + inst_deps)
    post: _
    """
    lines = ["[options]\n"]
    if setup_deps:
        lines.append("setup_requires =\n")
        lines += ["    " + d + "\n" for d in setup_deps]
    lines.append("install_requires =\n")
    first = len(lines)
    lines += ["    " + d + "\n" for d in inst_deps]
    last = len(lines) - 1
    lines.append("[other]\n")
    defined = "\n" + "\n".join(inst_deps)          # what configparser returns for a multi-line value
    w = SetupCfgWriter.__new__(SetupCfgWriter)
    new = w.build_new_lines(list(lines), defined, [DEP])
    if new is None:
        return False
    exp = lines[: last + 1] + ["    security==1.3.1\n"] + lines[last + 1 :]
    return new == exp
