from typing import List, Tuple
import libcst as cst
from codemodder.codemods.libcst_transformer import LibcstResultTransformer, NewArg
import codemodder.codemods.libcst_transformer as lt
_pe = cst.parse_expression
_cache = {}
def parse_expression(s):
    if s not in _cache: _cache[s] = _pe(s)
    return _cache[s]
class _CstProxy:
    def __getattr__(self, k): return getattr(cst, k)
    parse_expression = staticmethod(parse_expression)
lt.cst = _CstProxy()
VAL = parse_expression("True")

class Stub:
    make_new_arg = LibcstResultTransformer.make_new_arg

def kw_of(k: int):
    if k == 1: return "verify"
    if k == 2: return "timeout"
    if k == 3: return "x"
    return None

def mkargs(spec: List[Tuple[int, int]]):
    out = []
    for (k, star) in spec:
        kw = kw_of(k)
        st = ""
        if kw is None:
            st = "*" if star == 1 else "**" if star == 2 else ""
        out.append(cst.Arg(value=cst.Name("v"), keyword=cst.Name(kw) if kw else None, star=st))
    return out

def valid(spec) -> bool:
    seen_kw = False; seen_dstar = False; names = []
    for (k, star) in spec:
        if not (0 <= k <= 3 and 0 <= star <= 2): return False
        kw = kw_of(k)
        if kw is None and star == 0 and (seen_kw or seen_dstar): return False     # positional after keyword
        if kw is None and star == 1 and seen_dstar: return False
        if kw is not None:
            if kw in names: return False
            names.append(kw); seen_kw = True
        if kw is None and star == 2: seen_dstar = True
    return True

def ra(spec: List[Tuple[int, int]], name_i: int, add_if_missing: bool) -> bool:
    """
    pre: len(spec) <= 3 and valid(spec)
    pre: 1 <= name_i <= 2
    post: _
    """
    args = mkargs(spec)
    call = cst.Call(func=cst.Name("f"), args=args)
    name = kw_of(name_i)
    new = LibcstResultTransformer.replace_args(Stub(), call, [NewArg(name=name, value="True", add_if_missing=add_if_missing)])
    present = [i for i, a in enumerate(args) if a.keyword is not None and a.keyword.value == name]
    ok = True
    for i, a in enumerate(args):
        if i not in present[:1]:
            ok = ok and new[i] is a
    if present:
        ok = ok and len(new) == len(args) and new[present[0]].keyword.value == name and new[present[0]].value.deep_equals(VAL)
    elif add_if_missing:
        ok = ok and len(new) == len(args) + 1 and new[-1].keyword.value == name
    else:
        ok = ok and len(new) == len(args)
    # the rewritten call is still a valid call
    cst.Call(func=cst.Name("f"), args=new)
    return ok
