from typing import List, Tuple
from pathlib import Path
from codemodder.codemods.regex_transformer import RegexTransformerPipeline, SastRegexTransformerPipeline
from codemodder.file_context import FileContext
from codemodder.result import Result, Location, LineInfo
from codemodder.codetf import Change, Finding, Rule
Change(lineNumber=1, description="d", findings=[Finding(id="x", rule=Rule(id="x", name="x"))])
import codemodder.codemods.regex_transformer as rt
class _NoLog:
    def __getattr__(self, k):
        return lambda *a, **k: None
rt.logger = _NoLog()

class L(Location):
    pass
class R(Result):
    def __hash__(self): return 7

class Pipe(RegexTransformerPipeline):
    # environment stub for re.sub: a line "changes" iff it starts with "x"
    def _apply_regex(self, line):
        return "y" + line[1:] if line.startswith("x") else line

def mkres(lines_with_finding: List[int]):
    return [R(rule_id="r", finding=Finding(id=str(i), rule=Rule(id="r", name="r")),
              locations=[L(file=Path("f"), start=LineInfo(ln), end=LineInfo(ln))]) for i, ln in enumerate(lines_with_finding)]

def regex_findings(lines: List[str], finding_lines: List[int]) -> bool:
    """
    pre: 1 <= len(lines) <= 3 and len(finding_lines) <= 2
    pre: all(len(l) <= 2 for l in lines)
    pre: all(1 <= f <= 3 for f in finding_lines)
    post: _
    """
    res = mkres(finding_lines)
    fc = FileContext(Path("/d"), Path("/d/f"), [], [], res)
    p = Pipe("x", "y", "desc")
    changes, updated = p._apply(lines, fc, res)
    ok = len(updated) == len(lines)
    for i, (a, b) in enumerate(zip(lines, updated)):
        changed = a != b
        entries = [c for c in changes if c.lineNumber == i + 1]
        ok = ok and (len(entries) == (1 if changed else 0))
        for c in entries:
            exp = sorted(str(k) for k, ln in enumerate(finding_lines) if ln == i + 1)
            ok = ok and sorted(f.id for f in (c.findings or [])) == exp
    return ok
