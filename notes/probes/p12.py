from typing import List, Tuple
import libcst as cst
from codemodder.codemods.libcst_transformer import LibcstResultTransformer, NewArg

KW = [None, "verify", "timeout", "x"]
VAL = cst.parse_expression("True")
import codemodder.codemods.libcst_transformer as lt
_pe = cst.parse_expression
_cache = {}
def parse_expression(s):   # native parser needs a concrete str; values are concrete constants here
    if s not in _cache: _cache[s] = _pe(s)
    return _cache[s]
lt.cst.parse_expression = parse_expression

class Stub:
    make_new_arg = LibcstResultTransformer.make_new_arg

def mkargs(spec: List[Tuple[int, int]]):
    out = []
    for (k, star) in spec:
        kw = KW[k % 4]
        st = ["", "*", "**"][star % 3] if kw is None else ""
        out.append(cst.Arg(value=cst.Name("v"), keyword=cst.Name(kw) if kw else None, star=st))
    return out

def ra(spec: List[Tuple[int, int]], name_i: int, add_if_missing: bool) -> bool:
    """
    pre: len(spec) <= 3
    pre: 1 <= name_i <= 3
    post: _
    """
    args = mkargs(spec)
    call = cst.Call(func=cst.Name("f"), args=args)
    name = KW[name_i]
    new = LibcstResultTransformer.replace_args(Stub(), call, [NewArg(name=name, value="True", add_if_missing=add_if_missing)])
    present = [i for i, a in enumerate(args) if a.keyword is not None and a.keyword.value == name]
    ok = True
    # every other argument is the identical node, order kept
    for i, a in enumerate(args):
        if i not in present[:1]:
            ok = ok and new[i] is a
    if present:
        ok = ok and len(new) == len(args) and new[present[0]].keyword.value == name and new[present[0]].value.deep_equals(VAL)
    elif add_if_missing:
        ok = ok and len(new) == len(args) + 1 and new[-1].keyword.value == name
    else:
        ok = ok and len(new) == len(args)
    return ok
