import io
from pathlib import Path
from xml.sax.saxutils import unescape
from xml.sax.xmlreader import AttributesImpl
from codemodder.codemods.xml_transformer import XMLTransformer
from codemodder.file_context import FileContext

class Sink(io.TextIOBase):
    def __init__(self):
        self.parts = []
    def write(self, s):
        self.parts.append(s)
        return len(s)
    def writable(self): return True
    def flush(self): pass

ALPH = "a&<>]\"' \n"
def cdata(content: str) -> str:
    """
    pre: len(content) <= 3 and all(c in ALPH for c in content) and "]]>" not in content
    post: _ == "<![CDATA[" + content + "]]>"
    """
    out = Sink()
    t = XMLTransformer(out, FileContext(Path("/d"), Path("/d/f.xml")), results=None)
    t.startCDATA(); t.characters(content); t.endCDATA()
    return "".join(out.parts)

def chars(content: str) -> str:
    """
    pre: len(content) <= 3 and all(c in ALPH for c in content)
    post: unescape(_) == content
    """
    out = Sink()
    t = XMLTransformer(out, FileContext(Path("/d"), Path("/d/f.xml")), results=None)
    t.characters(content)
    return "".join(out.parts)
