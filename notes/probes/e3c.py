import types, itertools
from pathlib import Path
import codemodder.code_directory as cd
from codemodder.context import CodemodExecutionContext
from codemodder.codemods.base_codemod import Metadata, ReviewGuidance
from core_codemods.api.core_codemod import CoreCodemod, SASTCodemod
from codemodder.result import ResultSet, Result, Location, LineInfo

SENT = "\x00SYM\x00.py"
class Ora:
    vec = {}; seen = []
def _filter(names, pat):
    names = list(names); assert names == [SENT] or names == [], names
    if pat not in Ora.seen: Ora.seen.append(pat)
    return names if Ora.vec.get(pat, False) else []
cd.fnmatch = types.SimpleNamespace(filter=_filter)

class Reg:
    default_include_paths = ["*.py", "**/*.py"]
def ctx(inc, exc):
    c = CodemodExecutionContext(Path("/T"), False, False, Reg(), None, None, inc, exc, {}, 1)
    c.__dict__["files_to_analyze"] = [Path("/T") / SENT]
    return c
class Pipe: pass
md = Metadata(name="m", summary="s", review_guidance=ReviewGuidance.MERGE_WITHOUT_REVIEW, description="d")
ff = CoreCodemod(metadata=md, transformer=Pipe())
class L(Location): pass
class R(Result):
    def __hash__(self): return 1
rs = ResultSet(); rs.add_result(R(rule_id="r1", locations=[L(file=Path(SENT), start=LineInfo(1), end=LineInfo(1))]))
class S(SASTCodemod):
    @property
    def origin(self): return "sonar"
sast = S(metadata=md, transformer=Pipe(), requested_rules=["r1"])

def outcome(kind, inc, exc, vec):
    Ora.vec = vec; Ora.seen = []
    c = ctx(inc, exc)
    files = ff.get_files_to_analyze(c, None) if kind == "ff" else sast.get_files_to_analyze(c, rs)
    assert files in ([], [Path("/T") / SENT]), files
    return bool(files), list(Ora.seen)

for kind in ("ff", "sast"):
    for inc, exc in [([], []), (["src/*.py:3"], []), ([], ["tests/**", "src/a.py:2"]), (["lib/**"], ["lib/gen/*"])]:
        _, pats = outcome(kind, inc, exc, {})
        table = {}
        for bits in itertools.product([False, True], repeat=min(len(pats), 6)):
            vec = dict(zip(pats, bits))
            table[bits] = outcome(kind, inc, exc, vec)[0]
        print(kind, inc, exc, "-> queried", len(pats), pats[:5], "true rows", sum(table.values()), "/", len(table))
