import ast, z3, time
# outcome = (kind, val): kind 0 = value (Bool in val), 1 = NameError, 2 = TypeError
class Ev:
    def __init__(self):
        self.ints = {}; self.bound = {}; self.preds = {}
    def var(self, n):
        if n not in self.ints:
            self.ints[n] = z3.Int("v_" + n); self.bound[n] = z3.Bool("bound_" + n)
        return self.ints[n], self.bound[n]
    def expr(self, e):
        """returns (exc_kind: Int term (0 none), value term (Int or Bool))"""
        if isinstance(e, ast.Name):
            v, b = self.var(e.id)
            return z3.If(b, 0, 1), v
        if isinstance(e, ast.Constant) and isinstance(e.value, bool):
            return z3.IntVal(0), z3.BoolVal(e.value)
        if isinstance(e, ast.Constant) and isinstance(e.value, int):
            return z3.IntVal(0), z3.IntVal(e.value)
        if isinstance(e, ast.UnaryOp) and isinstance(e.op, ast.Not):
            k, v = self.expr(e.operand)
            return k, z3.Not(self.truth(v))
        if isinstance(e, ast.BoolOp):
            k, v = self.expr(e.values[0]); v = self.truth(v)
            for nxt in e.values[1:]:
                k2, v2 = self.expr(nxt); v2 = self.truth(v2)
                go = v if isinstance(e.op, ast.And) else z3.Not(v)     # evaluate next operand?
                k = z3.If(k != 0, k, z3.If(go, k2, 0))
                v = z3.If(go, v2, v)
            return k, v
        if isinstance(e, ast.Compare):
            k, left = self.expr(e.left); res = z3.BoolVal(True)
            for op, c in zip(e.ops, e.comparators):
                k2, right = self.expr(c)
                k = z3.If(k != 0, k, z3.If(res, k2, 0))       # short-circuit: comparator evaluated only if chain still true
                r = {ast.Eq: left == right, ast.NotEq: left != right, ast.Lt: left < right, ast.Gt: left > right,
                     ast.LtE: left <= right, ast.GtE: left >= right}[type(op)]
                res = z3.And(res, r); left = right
            return k, res
        raise NotImplementedError(ast.dump(e))
    def truth(self, v):
        return v if z3.is_bool(v) else v != 0

def differ(before, after):
    ev = Ev()
    kb, vb = ev.expr(ast.parse(before, mode="eval").body)
    ka, va = ev.expr(ast.parse(after, mode="eval").body)
    s = z3.Solver()
    s.add(z3.Or(kb != ka, z3.And(kb == 0, ev.truth(vb) != ev.truth(va))))
    t = time.time(); r = s.check()
    return str(r), (s.model() if str(r) == "sat" else None), round(time.time() - t, 3)

for b, a in [("not a == b == c", "a != b != c"), ("not a < b", "a >= b"), ("not a == b", "a != b"),
             ("p or q and r", "(p or q) and r"), ("not x == y", "x != yy")]:
    print(b, "|", a, "->", differ(b, a))
