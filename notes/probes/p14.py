# C20: run() skeleton
import types, sys
import codemodder.codemodder as cm
import codemodder.codetf as codetf_mod

class _NoLog:
    def __getattr__(self, k):
        return lambda *a, **k: None
cm.logger = _NoLog(); codetf_mod.logger = _NoLog()
cm.log_section = lambda *a, **k: None
cm.log_list = lambda *a, **k: None
cm.log_report = lambda *a, **k: None
cm.configure_logger = lambda *a, **k: None

class Env:
    pass
ENV = Env()

class FakeRegistry:
    def match_codemods(self, *a, **k): return []
cm.registry = types.SimpleNamespace(load_registered_codemods=lambda: FakeRegistry())
cm.providers = types.SimpleNamespace(load_providers=lambda: None)
def parse_args(argv, reg):
    return types.SimpleNamespace(directory="D", verbose=False, log_format=None, project_name=None,
        sarif=["S1"] if ENV.has_sarif else None, sonar_issues_json=["J1"] if ENV.has_sonar else None,
        sonar_hotspots_json=None, defectdojo_findings_json=None, dry_run=False, path_include=[], path_exclude=[],
        max_workers=1, codemod_include=None, codemod_exclude=None, output="OUT" if ENV.has_output else None)
cm.parse_args = parse_args
class FakeOs:
    class path:
        @staticmethod
        def exists(p):
            return {"D": ENV.dir_exists, "S1": ENV.sarif_exists, "J1": ENV.sonar_exists}[p]
cm.os = FakeOs
from collections import defaultdict
def detect_sarif_tools(files):
    if ENV.dup_tool: raise cm.DuplicateToolError("dup")
    if files and not ENV.sarif_exists: raise FileNotFoundError("x")
    d = defaultdict(list)
    if files: d["semgrep"].append("S1")
    return d
cm.detect_sarif_tools = detect_sarif_tools
class FakeRM:
    def __init__(self, d): pass
    def parse_project(self): pass
cm.PythonRepoManager = FakeRM
class FakeCtx:
    def __init__(self, *a, **k):
        if ENV.ai_misconfigured: raise cm.MisconfiguredAIClient("x")
        self.included_paths = []; self.files_to_analyze = []; self.find_and_fix_paths = []
    def compile_results(self, c): return []
cm.CodemodExecutionContext = FakeCtx
cm.find_semgrep_results = lambda *a, **k: None
cm.apply_codemods = lambda *a, **k: None
WRITTEN = []
class FakeCodeTF:
    @classmethod
    def build(cls, *a, **k): return cls()
    def write_report(self, out):
        if ENV.report_writable:
            WRITTEN.append(out); return 0
        return 2
cm.CodeTF = FakeCodeTF

def status(dir_exists: bool, has_sarif: bool, sarif_exists: bool, dup_tool: bool, has_sonar: bool, sonar_exists: bool,
           ai_misconfigured: bool, has_output: bool, report_writable: bool) -> int:
    """
    post: True
    """
    for k, v in list(locals().items()): setattr(ENV, k, v)
    WRITTEN.clear()
    got = cm.run(["D"])
    if not dir_exists: exp = 1
    elif has_sarif and (dup_tool or not sarif_exists): exp = 1
    elif has_sonar and not sonar_exists: exp = 1
    elif ai_misconfigured: exp = 3
    elif has_output and not report_writable: exp = 2
    else: exp = 0
    assert got == exp, (got, exp)
    assert got == 0 or not WRITTEN
    return got
