import itertools, time, types, re as real_re
try:
    import re._parser as sre_parse, re._constants as C
except ImportError:
    import sre_parse, sre_constants as C
import z3
import codemodder.registry as reg
from codemodder.registry import CodemodRegistry, CodemodCollection

class _NoLog:
    def __getattr__(self, k): return lambda *a, **k: None
reg.logger = _NoLog()

# --- sre -> z3 (subset) ---
ANY = z3.AllChar(z3.ReSort(z3.StringSort())); ALL = z3.Star(ANY); NONL = z3.Diff(ANY, z3.Re("\n"))
def tr(seq):
    parts = []
    for op, av in seq:
        op = str(op)
        if op == "LITERAL": parts.append(z3.Re(chr(av)))
        elif op == "ANY": parts.append(NONL)
        elif op == "MAX_REPEAT":
            lo, hi, sub = av; r = tr(sub)
            parts.append(z3.Star(r) if (lo, hi) == (0, C.MAXREPEAT) else z3.Plus(r) if (lo, hi) == (1, C.MAXREPEAT) else z3.Loop(r, lo, hi))
        else: raise NotImplementedError(op)
    return z3.Re("") if not parts else parts[0] if len(parts) == 1 else z3.Concat(*parts)

# --- stub re.compile in registry namespace ---
class Ora: vec = {}; compiled = []
class StubPat:
    def __init__(self, s): self.s = s
    def match(self, ident):
        return object() if Ora.vec.get((self.s, ident), False) else None
def stub_compile(s):
    if s not in Ora.compiled: Ora.compiled.append(s)
    return StubPat(s)
reg.re = types.SimpleNamespace(compile=stub_compile)

class CM:
    default_extensions = [".py"]
    def __init__(self, ident, origin): self.id = ident; self.origin = origin
    def __repr__(self): return self.id
IDS = ["\x00ID0", "\x00ID1"]
def registry(origins):
    r = CodemodRegistry()
    r.add_codemod_collection(CodemodCollection(origin="x", codemods=[CM(i, o) for i, o in zip(IDS, origins)]))
    return r

def glob_ref(pat):   # whole-id match, only '*' special
    segs = pat.split("*")
    parts = []
    for i, s in enumerate(segs):
        if i: parts.append(ALL)
        if s: parts.append(z3.Re(s))
    return z3.Re("") if not parts else parts[0] if len(parts) == 1 else z3.Concat(*parts)

ids = [z3.String("id0"), z3.String("id1")]
def explore(include):
    r = registry(["pixee", "pixee"])
    Ora.compiled = []; Ora.vec = {}
    r.match_codemods(include, None)               # discover compiled patterns
    pats = list(Ora.compiled)
    wild = [n for n in include if "*" in n]
    assert len(pats) == len(wild)
    keys = [(p, i) for p in pats for i in IDS]
    nq = 0; t = time.time()
    for bits in itertools.product([False, True], repeat=len(keys)):
        Ora.vec = dict(zip(keys, bits))
        got = [c.id for c in r.match_codemods(include, None)]
        for rbits in itertools.product([False, True], repeat=len(keys)):
            refm = dict(zip(keys, rbits))
            # reference sequence
            ref = []
            for n in include:
                if "*" in n:
                    p = pats[wild.index(n)]
                    ref += [i for i in IDS if refm[(p, i)]]
                elif n in IDS: ref.append(n)
            ref = list(dict.fromkeys(ref))
            if got == ref: continue
            s = z3.Solver(); s.set("timeout", 20000)
            s.add(ids[0] != ids[1])
            for idv in ids: s.add(z3.Length(idv) <= 64, z3.Not(z3.Contains(idv, z3.StringVal("*"))), z3.Not(z3.Contains(idv, z3.StringVal(","))))
            for (p, i), b in Ora.vec.items():
                real = z3.InRe(ids[IDS.index(i)], z3.Concat(tr(sre_parse.parse(p)), ALL))   # .match = prefix match
                s.add(real == b)
            for (p, i), b in refm.items():
                w = wild[pats.index(p)]
                s.add(z3.InRe(ids[IDS.index(i)], glob_ref(w)) == b)
            nq += 1
            if str(s.check()) == "sat":
                m = s.model()
                return "VIOLATION", include, [m[v] for v in ids], "real", got, "ref", ref, nq, round(time.time()-t, 2)
    return "ok", include, nq, round(time.time()-t, 2)

print(explore(["ab*"]))
print(explore(["*ab*"]))
print(explore(["*ab"]))
print(explore(["a.b*"]))
print(explore([IDS[0], "a*"]))
