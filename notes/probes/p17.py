from typing import List
import libcst as cst
from core_codemods.invert_boolean_check import InvertedBooleanCheckTransformer as T

OPS = [cst.Equal, cst.NotEqual, cst.LessThan, cst.GreaterThan, cst.LessThanEqual, cst.GreaterThanEqual]
def ev_op(op, a, b):
    if isinstance(op, cst.Equal): return a == b
    if isinstance(op, cst.NotEqual): return a != b
    if isinstance(op, cst.LessThan): return a < b
    if isinstance(op, cst.GreaterThan): return a > b
    if isinstance(op, cst.LessThanEqual): return a <= b
    if isinstance(op, cst.GreaterThanEqual): return a >= b
    raise TypeError(op)
def ev(node, env):
    if isinstance(node, cst.Name): return env[node.value]
    if isinstance(node, cst.UnaryOperation): return not ev(node.expression, env)
    if isinstance(node, cst.Comparison):
        left = ev(node.left, env)
        for t in node.comparisons:
            right = ev(t.comparator, env)
            if not ev_op(t.operator, left, right): return False
            left = right
        return True
    raise TypeError(node)

class Stub:
    _invert_comparisons = T._invert_comparisons
    def report_change(self, node): pass

def inv(ops: List[int], vals: List[int]) -> bool:
    """
    pre: 1 <= len(ops) <= 2 and len(vals) == len(ops) + 1
    pre: all(0 <= o < 6 for o in ops)
    post: _
    """
    names = ["a", "b", "c", "d"]
    cmp = cst.Comparison(left=cst.Name("a"), comparisons=[
        cst.ComparisonTarget(operator=OPS[o](), comparator=cst.Name(names[i + 1])) for i, o in enumerate(ops)])
    orig = cst.UnaryOperation(operator=cst.Not(), expression=cmp)
    out = T.report_new_comparison(Stub(), orig, cmp)
    env = {names[i]: v for i, v in enumerate(vals)}
    return ev(orig, env) == ev(out, env)
