import sys, time, tempfile, os
from pathlib import Path
import libcst as cst
from core_codemods.invert_boolean_check import InvertedBooleanCheck
from core_codemods.combine_startswith_endswith import CombineStartswithEndswith
from core_codemods.combine_isinstance_issubclass import CombineIsinstanceIssubclass
from codemodder.file_context import FileContext

class Ctx:
    def __init__(self, d): self.directory = d; self.dry_run = True
def run(codemod, src):
    d = Path(tempfile.mkdtemp()); f = d / "t.py"; f.write_text(src)
    fc = FileContext(d, f, [], [], None)
    cs = codemod.transformer.apply(Ctx(d), fc, None)
    # dry run: recover output by re-running transformers on the tree
    tree = cst.parse_module(src)
    fc2 = FileContext(d, f, [], [], None)
    for t in codemod.transformer.transformers:
        tree = t.transform(tree, None, fc2)
    os.remove(f); os.rmdir(d)
    return tree.code, cs, fc.failures
for cm, src in [
  (InvertedBooleanCheck, "r = not a == b == c\n"),
  (InvertedBooleanCheck, "r = not x in y\n"),
  (InvertedBooleanCheck, "r = not x is None\n"),
  (InvertedBooleanCheck, "r = not a < b\n"),
  (CombineStartswithEndswith(), "r = a.startswith(x) or a.startswith(y) and c\n"),
  (CombineStartswithEndswith(), "r = c and a.startswith(x) or a.startswith(y)\n"),
  (CombineIsinstanceIssubclass(), "r = isinstance(a, x) or isinstance(a, y) and c\n"),
]:
    t = time.time()
    try:
        out, cs, fails = run(cm, src)
        print(repr(src), "->", repr(out), "failures", fails, round(time.time()-t,3))
    except Exception as e:
        print(repr(src), "EXC", repr(e))
