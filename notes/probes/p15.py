from pathlib import Path
from typing import List
import types
import codemodder.codemods.base_codemod as bc
from codemodder.codemods.base_codemod import BaseCodemod, Metadata, ReviewGuidance
from codemodder.codetf import ChangeSet, Change
ChangeSet(path="p", diff="d", changes=[Change(lineNumber=1, description="d")])
class _NoLog:
    def __getattr__(self, k):
        return lambda *a, **k: None
bc.logger = _NoLog()

REC = {}
class StubExecutor:
    ORDER: List[int] = []
    def __init__(self, *a, **k):
        REC["ctor"] = (a, k)
    def __enter__(self): return self
    def __exit__(self, *a): return False
    def shutdown(self, wait=True): pass
    def map(self, fn, items):
        items = list(items)
        results = [None] * len(items)
        order = [i for i in StubExecutor.ORDER if i < len(items)]
        for i in order:                     # tasks run in an arbitrary order...
            results[i] = fn(items[i])
        return iter(results)                # ...results come back in input order (Executor.map contract)
bc.ThreadPoolExecutor = StubExecutor

FILES = [Path("/d/a.py"), Path("/d/b.py"), Path("/d/c.py")]
LOG = []
class StubPipeline:
    def apply(self, context, file_context, results):
        LOG.append(file_context.file_path.name)
        return ChangeSet(path=file_context.file_path.name, diff="d", changes=[Change(lineNumber=1, description="x")])

class CM(BaseCodemod):
    @property
    def origin(self): return "pixee"
    @property
    def docs_module_path(self): return "x"
    def get_files_to_analyze(self, context, results): return FILES[: context.nfiles]

class Ctx:
    def __init__(self, n, w):
        self.nfiles = n; self.max_workers = w; self.directory = Path("/d")
        self.path_include = []; self.path_exclude = []; self.providers = None
        self.semgrep_prefilter_results = None
        self.got = None
    def process_results(self, cid, contexts):
        self.got = [fc.changesets[0].path for fc in contexts]

def perm(k: int) -> List[int]:
    return [[0,1,2],[0,2,1],[1,0,2],[1,2,0],[2,0,1],[2,1,0]][k % 6]

def sched(n: int, w: int, k1: int, k2: int) -> bool:
    """
    pre: 1 <= n <= 3 and 1 <= w <= 4
    post: _
    """
    cm = CM(metadata=Metadata(name="m", summary="s", review_guidance=ReviewGuidance.MERGE_WITHOUT_REVIEW), transformer=StubPipeline())
    outs = []
    for k in (k1, k2):
        StubExecutor.ORDER = perm(k)
        c = Ctx(n, w)
        cm.apply(c)
        outs.append(c.got)
    a, kw = REC["ctor"]
    pool = kw.get("max_workers", a[0] if a else None)
    return outs[0] == outs[1] and pool is not None and pool <= w
