import libcst as cst
from core_codemods.lazy_logging import LazyLogging
from codemodder.codemods.utils import BaseType

def lex_ok(tok: str) -> bool:
    if len(tok) < 2 or tok[0] != '"' or tok[-1] != '"':
        return False
    i = 1
    n = len(tok) - 1
    while i < n:
        c = tok[i]
        if c == "\\":
            i += 2
            continue
        if c == '"' or c == "\n":
            return False
        i += 1
    return i == n

class Stub:
    # unbound-method driver: only what make_args_for_plus touches
    is_str_concat = LazyLogging.is_str_concat
    process_concat = LazyLogging.process_concat
    def resolve_expression(self, node):
        # x is bound to a str literal elsewhere in the module
        if isinstance(node, cst.Name):
            return cst.SimpleString('"v"')
        return node

def run(s: str) -> str:
    """
    pre: len(s) <= 3
    pre: "'" not in s and "\\" not in s and "\n" not in s
    post: _ == "" or lex_ok(_)
    """
    lit = cst.SimpleString(value="'" + s + "'")
    binop = cst.BinaryOperation(left=lit, operator=cst.Add(), right=cst.Name("x"))
    args = LazyLogging.make_args_for_plus(Stub(), binop)
    if args is None:
        return ""
    return args[0].value.value
