from typing import List, Dict, Tuple
from pathlib import Path
import types
from codemodder.context import CodemodExecutionContext
from codemodder.file_context import FileContext
from codemodder.codetf import ChangeSet, Change, Reference
import codemodder.context as cx
class _NoLog:
    def __getattr__(self, k): return lambda *a, **k: None
cx.logger = _NoLog()
ChangeSet(path="p", diff="d", changes=[Change(lineNumber=1, description="d")])
from codemodder.codetf import Result as R
R(codemod="c", summary="s", description="d", references=[Reference(url="u")], properties={}, failedFiles=[], changeset=[], unfixedFindings=[])
IDS = ["A", "B", "C"]
def pick(i: int) -> str:
    return "A" if i == 0 else "B" if i == 1 else "C"

def mkctx() -> CodemodExecutionContext:
    return CodemodExecutionContext(Path("/d"), False, False, None, None, None, [], [], {}, 1)

def cs(tag: int) -> ChangeSet:
    return ChangeSet(path="f%d.py" % tag, diff="d%d" % tag, changes=[Change(lineNumber=1, description="x")])

CS = [cs(t) for t in range(8)]
def step(pre: List[int], a: int, npay: int, nfail: int) -> bool:
    """
    pre: len(pre) <= 3 and 0 <= npay <= 2 and 0 <= nfail <= 2
    pre: all(0 <= i <= 2 for i in pre) and 0 <= a <= 2
    post: _
    """
    ctx = mkctx()
    for n, i in enumerate(pre):                      # arbitrary reachable pre-state
        ctx.add_changesets(pick(i), [CS[n]])
        ctx.add_failures(pick(i), [Path("g%d" % n)])
    before = {k: ([c.path for c in ctx.get_changesets(k)], list(ctx.get_failures(k))) for k in IDS}
    fc = FileContext(Path("/d"), Path("/d/x.py"))
    pay = CS[4:4 + npay]
    for c in pay: fc.add_changeset(c)
    fails = [Path("h0"), Path("h1")][:nfail]
    fc.failures.extend(fails)
    ctx.process_results(pick(a), iter([fc]))
    ok = True
    for k in IDS:
        got = ([c.path for c in ctx.get_changesets(k)], list(ctx.get_failures(k)))
        if k == pick(a):
            ok = ok and got == (before[k][0] + [c.path for c in pay], before[k][1] + fails)
        else:
            ok = ok and got == before[k]
    return ok
